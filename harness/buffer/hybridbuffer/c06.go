package hybridbuffer

// C06 — queue directories: different pipeline ids never share a directory and
// the .id file holds the id (MD5 is replaced by an injective stand-in: the
// hash is assumed collision-free).

import (
	"errors"
	"os"

	"github.com/relex/gotils/logger"
	"github.com/relex/slog-agent/zz_verif/fakes"
	"github.com/relex/slog-agent/zz_verif/fsmodel"
	"github.com/relex/slog-agent/zz_verif/sym"
)

var verifMkdirs []string
var verifFiles = map[string]string{}

var verifMkdirFailMask int // bit i set: the i-th MkdirAll call fails

func verifStubMkdirAll(path string, perm os.FileMode) error {
	verifMkdirs = append(verifMkdirs, path)
	if verifMkdirFailMask&(1<<(len(verifMkdirs)-1)) != 0 {
		return errors.New("file name too long (injected)")
	}
	return nil
}

func verifStubWriteFile(name string, data []byte, perm os.FileMode) error {
	verifFiles[name] = string(data)
	return nil
}

// verifStubMD5: injective stand-in for MD5 on contents of up to 4 bytes: the
// last 8 characters are the hex digits of the content, left-padded with 'g'.
func verifStubMD5(content string) string {
	const hexd = "0123456789abcdef"
	out := []byte("gggggggggggggggggggggggggggggggg")
	if len(content) > 4 {
		panic("stub hash supports up to 4 bytes")
	}
	p := len(out) - 2*len(content)
	for i := 0; i < len(content); i++ {
		out[p+2*i], out[p+2*i+1] = hexd[content[i]>>4], hexd[content[i]&15]
	}
	return string(out)
}

//verif:stub os.MkdirAll verifStubMkdirAll
//verif:stub os.WriteFile verifStubWriteFile
//verif:stub github.com/relex/slog-agent/util.MD5ToHexdigest verifStubMD5
//verif:reach distinct equal
func VerifC06_QueueDirPerId() {
	verifMkdirs, verifFiles = nil, map[string]string{}
	root := "/q"
	if !sym.Symbolic() {
		tmp, err := os.MkdirTemp("", "verifc06")
		if err != nil {
			panic(err)
		}
		defer os.RemoveAll(tmp)
		root = tmp
	}
	n1 := sym.Choice("id1Len", 3) + 1
	n2 := sym.Choice("id2Len", 3) + 1
	id1, id2 := sym.String("id1", n1, n1), sym.String("id2", n2, n2)
	d1 := makeBufferQueueDir(logger.Root(), root, id1)
	d2 := makeBufferQueueDir(logger.Root(), root, id2)
	sym.Assert((d1 == d2) == (id1 == id2), "two pipeline ids share a queue directory iff they are equal")
	if sym.Symbolic() {
		sym.Assert(verifFiles[d1+"/.id"] == id1 || id1 == id2, "the .id file holds the id of its directory")
		sym.Assert(verifFiles[d2+"/.id"] == id2, "the second .id file holds its id")
	} else {
		b, _ := os.ReadFile(d2 + "/.id")
		sym.Assert(string(b) == id2, "the second .id file holds its id")
	}
	for i := len(root) + 1; i < len(d1); i++ {
		sym.Assert(d1[i] != '/' && d1[i] != 0, "directory name is a single clean path element")
	}
	if id1 == id2 {
		sym.Reach("equal")
	} else {
		sym.Reach("distinct")
	}
}

// VerifC06_QueueDirWhenMkdirFails: creating the queue directory fails (name too
// long for the file system, read-only root, ...) for the first, the second or
// both of two pipeline ids: the directories the two queues go on to use are
// still the same iff the ids are equal, and neither is the root directory that
// every queue (and the queue of the empty id) would share.
//
//verif:native off
//verif:stub os.MkdirAll verifStubMkdirAll
//verif:stub os.WriteFile verifStubWriteFile
//verif:stub github.com/relex/slog-agent/util.MD5ToHexdigest verifStubMD5
//verif:reach distinct equal
func VerifC06_QueueDirWhenMkdirFails() {
	verifMkdirs, verifFiles = nil, map[string]string{}
	defer func() { verifMkdirFailMask = 0 }()
	verifMkdirFailMask = 1 + sym.Choice("mkdirFailure", 3) // first, second, both
	n1 := sym.Choice("id1Len", 3) + 1
	n2 := sym.Choice("id2Len", 3) + 1
	id1, id2 := sym.String("id1", n1, n1), sym.String("id2", n2, n2)
	d1 := makeBufferQueueDir(logger.Root(), "/q", id1)
	d2 := makeBufferQueueDir(logger.Root(), "/q", id2)
	sym.Assert((d1 == d2) == (id1 == id2), "two pipeline ids share a queue directory iff they are equal, also when a directory cannot be created")
	sym.Assert(d1 != "/q" && d2 != "/q", "a queue whose directory cannot be created does not fall back to the root directory shared by all queues")
	if id1 == id2 {
		sym.Reach("equal")
	} else {
		sym.Reach("distinct")
	}
}

// VerifC03_QueuesDoNotShareFiles: C03's bounds and conservation are per queue;
// they presuppose that two buffer ids never share a queue directory (C06's
// directory harness read for C03).
//
//verif:stub os.MkdirAll verifStubMkdirAll
//verif:stub os.WriteFile verifStubWriteFile
//verif:stub github.com/relex/slog-agent/util.MD5ToHexdigest verifStubMD5
//verif:reach distinct equal
func VerifC03_QueuesDoNotShareFiles() { VerifC06_QueueDirPerId() }

func verifStubReadFile(name string) ([]byte, error) {
	s, ok := verifFiles[name]
	if !ok {
		return nil, os.ErrNotExist
	}
	return []byte(s), nil
}

// VerifC06_QueueIdRoundTrip: the id written next to a queue (makeBufferQueueDir)
// is the id found at the next start (listBufferQueueIDs), byte for byte, for
// every id of 1..3 arbitrary bytes (edge whitespace, separators, control bytes
// included): otherwise the queued chunks are re-attached to another key tuple.
// The directory tree is the harness recorder (MkdirAll/WriteFile/ReadFile) plus
// the flat file-system model holding the one directory entry with a chunk in it.
//
//verif:native off
//verif:stub os.MkdirAll verifStubMkdirAll
//verif:stub os.WriteFile verifStubWriteFile
//verif:stub os.ReadFile verifStubReadFile
//verif:stub github.com/relex/slog-agent/util.MD5ToHexdigest verifStubMD5
//verif:reach done
func VerifC06_QueueIdRoundTrip() {
	verifMkdirs, verifFiles = nil, map[string]string{}
	fs := fsmodel.Reset()
	n := sym.Choice("idLen", 3) + 1
	id := sym.String("id", n, n)
	dir := makeBufferQueueDir(logger.Root(), "/q", id)
	// the root directory lists that one entry; the queue directory (same flat model) lists one chunk
	fs.Files[dir[len("/q/"):]] = []byte("chunk")
	ids := listBufferQueueIDs(logger.Root(), "/q", func(string) bool { return true }, fakes.NewMetrics())
	sym.Assert(len(ids) == 1, "the queue directory that holds chunks is found at the next start")
	if len(ids) == 1 {
		sym.Assert(ids[0] == id, "the recovered queue id is the id that produced the queue, byte for byte")
	}
	sym.Reach("done")
}

var verifOpened []string

func verifStubOpenRecording(name string) (*os.File, error) {
	verifOpened = append(verifOpened, name)
	return fsmodel.OsOpen(name)
}

// VerifC17_QueueRootIsTheSameForScanAndUse: the configured `.rootPath` (with or
// without an environment variable in it, symbolic choice of four spellings) is
// resolved the same way by the scan for queued buffer ids at (re)start
// (Config.ListBufferIDs) and by the bufferer that writes the queue
// (Config.NewBufferer): the directory scanned is the parent of the queue
// directory that is used - otherwise a new orchestrator started by a reload
// finds nothing to take over. (os.Getenv is the engine's: every variable is empty.)
//
//verif:native off
//verif:stub os.MkdirAll verifStubMkdirAll
//verif:stub os.WriteFile verifStubWriteFile
//verif:stub os.Open verifStubOpenRecording
//verif:stub github.com/relex/slog-agent/util.MD5ToHexdigest verifStubMD5
//verif:reach done
func VerifC17_QueueRootIsTheSameForScanAndUse() {
	verifMkdirs, verifFiles, verifOpened = nil, map[string]string{}, nil
	fsmodel.Reset()
	root := []string{"/var/q", "${ZZ_ROOT}/q", "$ZZ_ROOT/q", "/var/${ZZ_NAME}q"}[sym.Choice("rootPathSpelling", 4)]
	cfg := &Config{RootPath: root, MaxBufSize: 1 << 20}
	sym.Assert(cfg.VerifyConfig() == nil, "configuration accepted")
	m := fakes.NewMetrics()
	cfg.ListBufferIDs(logger.Root(), func(string) bool { return true }, m)
	sym.Assert(len(verifOpened) >= 1, "the scan opens the root directory")
	scanned := verifOpened[0]
	n := sym.Choice("idLen", 2) + 1
	id := sym.String("id", n, n)
	cfg.NewBufferer(logger.Root(), id, verifMatchFF, fakes.NewMetrics(), false)
	sym.Assert(len(verifMkdirs) == 1, "the bufferer creates its queue directory")
	used := verifMkdirs[0]
	sym.Assert(len(used) > len(scanned)+1 && used[:len(scanned)] == scanned && used[len(scanned)] == '/', "the directory scanned for queued buffers at start is the parent of the queue directories in use")
	for i := len(scanned) + 1; i < len(used); i++ {
		sym.Assert(used[i] != '/', "the queue directory is a direct child of the scanned root")
	}
	sym.Reach("done")
}
