package hybridbuffer

// C04 — spilled chunks survive I/O faults and crashes intact or not at all.
// C03 — (operator level) quota and gauge bookkeeping of one operation.
// File system = harness model (zz_verif/fsmodel) with symbolic faults.

import (
	"errors"

	"github.com/relex/gotils/channels"
	"github.com/relex/gotils/logger"
	"github.com/relex/slog-agent/base"
	"github.com/relex/slog-agent/zz_verif/fakes"
	"github.com/relex/slog-agent/zz_verif/fsmodel"
	"github.com/relex/slog-agent/zz_verif/sym"
)

func verifMatchFF(id string) bool { return len(id) > 3 && id[len(id)-3:] == ".ff" }

type verifCrash struct{}

func verifNewFeeder(m *fakes.Metrics, maxBytes int64) (*outputFeeder, *chunkManager) {
	op := newChunkOperator(logger.Root(), "/q", verifMatchFF, m, maxBytes)
	man := newChunkManager(logger.Root(), op, m, false)
	in := make(chan base.LogChunk, 8)
	gv := m.AddOrGetGaugeVec("queued_chunks", "", []string{"state"}, nil)
	metrics := bufferMetrics{queuedChunksTransient: gv.WithLabelValues("transient"), queuedChunksPersistent: gv.WithLabelValues("persistent")}
	f := newOutputFeeder(logger.Root(), man, in, channels.NewSignalAwaitable(), metrics)
	return &f, &man
}

func verifSameBytes(got, want []byte, what string) {
	sym.Assert(len(got) == len(want), what+": same length")
	j := sym.IntRange("anyIndex", 0, 16<<20)
	if j < len(want) && j < len(got) {
		sym.Assert(got[j] == want[j], what+": same bytes")
	}
}

// verifNoDescriptorLeak: every descriptor opened on a chunk file is closed again, on the failure paths too. A
// descriptor leaked per failed write or per damaged file is how a run of faults ends up blocking the recovery of the
// intact chunks behind it (open fails with EMFILE once the process runs out of descriptors): the per-operation
// invariant "no descriptor outlives its operation" is what keeps the property true for any number of damaged files.
func verifNoDescriptorLeak(fs *fsmodel.FS) {
	sym.Assert(fs.OpenDescriptors() == 0, "no file descriptor outlives the operation that opened it (a leak per damaged file or failed write exhausts the descriptors and blocks recovery)")
}

// VerifC04_FaultDuringSpill: one chunk of symbolic length is spilled while the
// write is cut at an arbitrary byte offset k - as a short write without error,
// as an error after k bytes, or because the process dies there; or opening
// fails. Then the agent restarts on the same directory. Whatever reaches the
// output is byte-identical to what was produced; a chunk reported as saved is
// intact on disk.
//
//verif:reach saved not-saved forwarded not-forwarded
//verif:native off
//verif:solver cvc5-int
func VerifC04_FaultDuringSpill() {
	fs := fsmodel.Reset()
	m := fakes.NewMetrics()
	feeder, man := verifNewFeeder(m, 1<<40)
	maxLen := 5000
	if sym.Tier() > 0 {
		maxLen = 16 << 20 // beyond the largest chunk the agent produces
	}
	data := sym.BigBytes("data", 1, maxLen)
	orig := append([]byte{}, data...)
	fault := sym.Choice("fault", 5) // 0 none, 1 short write, 2 error after k bytes, 3 crash after k bytes, 4 open fails
	k := sym.IntRange("k", 0, maxLen)
	sym.Assume(k < len(data))
	fs.OnOpen = func(name string, write bool) error {
		if fault == 4 && write {
			return errors.New("no space left on device (injected)")
		}
		return nil
	}
	calls := 0
	fs.OnWrite = func(name string, n int) (int, error) {
		calls++
		if calls > 1 {
			if fault == 3 {
				panic(verifCrash{}) // the process is gone
			}
			return n, nil // the fault hits the first write only
		}
		switch fault {
		case 1:
			return k, nil
		case 2:
			return k, errors.New("disk full (injected)")
		case 3:
			return k, nil
		}
		return n, nil
	}
	chunk := base.LogChunk{ID: "0000000000000000001-00000001.ff", Data: data}
	saved := false
	crashed := false
	func() {
		defer func() {
			if r := recover(); r != nil {
				if _, ok := r.(verifCrash); !ok {
					panic(r)
				}
				crashed = true
			}
		}()
		saved = man.UnloadOrDropChunk(&chunk)
		if fault == 3 {
			panic(verifCrash{}) // the process dies right after the partial write
		}
	}()
	_ = feeder
	if saved && !crashed {
		verifSameBytes(fs.Files[chunk.ID], orig, "a chunk reported as saved is complete on disk")
		sym.Reach("saved")
	} else {
		sym.Reach("not-saved")
	}
	// ---- restart on the same directory ----
	fs.OnWrite, fs.OnOpen = nil, nil
	m2 := fakes.NewMetrics()
	feeder2, man2 := verifNewFeeder(m2, 1<<40)
	recovered := man2.ScanChunks()
	sym.Assert(len(recovered) <= 1, "at most the one chunk file is recovered")
	for _, c := range recovered {
		man2.OnChunkInputRecovered(c)
		feeder2.loadToOutput(c)
	}
	select {
	case out := <-feeder2.outputChannel:
		verifSameBytes(out.Data, orig, "a chunk forwarded after the restart is byte-identical to what was produced")
		sym.Reach("forwarded")
	default:
		sym.Reach("not-forwarded")
	}
	if !crashed { // a process that died holds no descriptors
		verifNoDescriptorLeak(fs)
	}
}

// VerifC04_FaultAtAnyQueuePosition: three chunks of symbolic length are spilled
// one after the other; the fault hits the chunk at a symbolic position - short
// write, error after k bytes, crash after k bytes, crash after the complete
// write but before the rename, rename failure, crash right after the rename,
// or (thorough) a second fault on the write that follows a short write. Then
// the agent restarts: whatever is forwarded is byte-identical to a produced
// chunk, in creation order, each at most once; chunks reported as saved before
// the fault are all recovered.
//
//verif:reach crashed survived
//verif:native off
//verif:solver cvc5-int
//verif:paths 100000
func VerifC04_FaultAtAnyQueuePosition() {
	fs := fsmodel.Reset()
	defer func() { fsmodel.OnRename = nil }()
	m := fakes.NewMetrics()
	_, man := verifNewFeeder(m, 1<<40)
	ids := []string{"0000000000000000001-00000001.ff", "0000000000000000002-00000001.ff", "0000000000000000003-00000001.ff"}
	var origs [3][]byte
	pos := sym.Choice("faultPosition", 3)
	kinds := 7
	if sym.Tier() > 0 {
		kinds = 8
	}
	fault := 1 + sym.Choice("fault", kinds-1) // 1 short write, 2 error after k, 3 crash after k, 4 crash before rename, 5 rename fails, 6 crash after rename, 7 short write then error
	k := sym.IntRange("k", 0, 3000)
	cur := -1
	writes := 0
	fs.OnWrite = func(name string, n int) (int, error) {
		if cur != pos {
			return n, nil
		}
		writes++
		if writes == 1 {
			switch fault {
			case 1, 3, 7:
				return k, nil
			case 2:
				return k, errors.New("disk full (injected)")
			}
			return n, nil
		}
		if fault == 3 {
			panic(verifCrash{})
		}
		if fault == 7 && writes == 2 {
			return 0, errors.New("input/output error (injected)")
		}
		return n, nil
	}
	fsmodel.OnRename = func(from, to string) error {
		if cur != pos {
			return nil
		}
		if fault == 4 {
			panic(verifCrash{})
		}
		if fault == 5 {
			return errors.New("read-only file system (injected)")
		}
		return nil
	}
	saved := [3]bool{}
	crashed := false
	func() {
		defer func() {
			if r := recover(); r != nil {
				if _, ok := r.(verifCrash); !ok {
					panic(r)
				}
				crashed = true
			}
		}()
		for i := 0; i < 3; i++ {
			data := sym.BigBytes("data", 1, 3000)
			if i == pos {
				sym.Assume(k < len(data))
			}
			origs[i] = append([]byte{}, data...)
			cur = i
			chunk := base.LogChunk{ID: ids[i], Data: data}
			ok := man.UnloadOrDropChunk(&chunk)
			if i == pos && (fault == 3 || fault == 6) {
				panic(verifCrash{}) // the process dies after the partial write / right after the rename
			}
			saved[i] = ok
			if ok {
				verifSameBytes(fs.Files[ids[i]], origs[i], "a chunk reported as saved is complete on disk")
			}
		}
	}()
	if crashed {
		sym.Reach("crashed")
	} else {
		sym.Reach("survived")
	}
	// ---- restart on the same directory ----
	fs.OnWrite, fs.OnOpen = nil, nil
	fsmodel.OnRename = nil
	m2 := fakes.NewMetrics()
	feeder2, man2 := verifNewFeeder(m2, 1<<40)
	recovered := man2.ScanChunks()
	for _, c := range recovered {
		man2.OnChunkInputRecovered(c)
	}
	for _, c := range recovered {
		if !feeder2.loadToOutput(c) {
			break
		}
	}
	last := -1
	forwarded := [3]bool{}
	for {
		var out base.LogChunk
		select {
		case out = <-feeder2.outputChannel:
		default:
			out.ID = ""
		}
		if out.ID == "" {
			break
		}
		idx := -1
		for i, id := range ids {
			if out.ID == id {
				idx = i
			}
		}
		sym.Assert(idx >= 0, "only produced chunks are forwarded (no temporary or partial file is taken for a chunk)")
		if idx < 0 {
			break
		}
		sym.Assert(idx > last, "recovered chunks are forwarded in creation order, each once")
		last = idx
		forwarded[idx] = true
		verifSameBytes(out.Data, origs[idx], "a chunk forwarded after the restart is byte-identical to what was produced")
	}
	for i := 0; i < 3; i++ {
		if saved[i] {
			sym.Assert(forwarded[i], "a chunk reported as saved before the fault is recovered and forwarded after the restart")
		}
	}
	if !crashed {
		verifNoDescriptorLeak(fs)
	}
}

// VerifC04_DamagedFileDoesNotBlockRecovery: three chunk files from a previous
// run, one of them damaged (empty, unreadable, or failing stat) at a symbolic
// position: the other two are recovered in order and forwarded intact; the
// damaged one is accounted (dropped / io error), never forwarded truncated.
//
//verif:reach recovered
//verif:native off
//verif:solver cvc5-int
func VerifC04_DamagedFileDoesNotBlockRecovery() {
	fs := fsmodel.Reset()
	ids := []string{"0000000000000000001-00000001.ff", "0000000000000000002-00000001.ff", "0000000000000000003-00000001.ff"}
	var datas [3][]byte
	for i, id := range ids {
		datas[i] = sym.BigBytes("data", 1, 3000)
		fs.Files[id] = append([]byte{}, datas[i]...)
	}
	bad := sym.Choice("damagedPosition", 3)
	kind := sym.Choice("damage", 4) // 0 zero-length file, 1 read fails, 2 open fails, 3 stat fails
	if kind == 0 {
		fs.Files[ids[bad]] = []byte{}
	}
	fs.OnRead = func(name string) error {
		if kind == 1 && name == ids[bad] {
			return errors.New("input/output error (injected)")
		}
		return nil
	}
	fs.OnOpen = func(name string, write bool) error {
		if kind == 2 && name == ids[bad] && !write {
			return errors.New("permission denied (injected)")
		}
		return nil
	}
	fs.OnStat = func(name string) error {
		if kind == 3 && name == ids[bad] {
			return errors.New("stale file handle (injected)")
		}
		return nil
	}
	m := fakes.NewMetrics()
	feeder, man := verifNewFeeder(m, 1<<40)
	recovered := man.ScanChunks() // obligation: no panic anywhere below
	sym.Assert(len(recovered) == 3, "all three files are listed")
	for i, c := range recovered {
		sym.Assert(c.ID == ids[i], "recovered in creation (id) order")
		man.OnChunkInputRecovered(c)
	}
	for _, c := range recovered {
		// as the feeder's main loop does: "false" means feeding is aborted and the loop ends
		if !feeder.loadToOutput(c) {
			break
		}
	}
	next := 0
	for i := 0; i < 3; i++ {
		if i == bad {
			continue
		}
		select {
		case out := <-feeder.outputChannel:
			sym.Assert(out.ID == ids[i], "intact chunks are forwarded in order")
			verifSameBytes(out.Data, datas[i], "intact chunk forwarded byte-identical")
			next++
		default:
			sym.Assert(false, "an intact chunk is not blocked by the damaged file")
		}
	}
	select {
	case extra := <-feeder.outputChannel:
		// the damaged file may still be forwarded only if it is complete (stat failure does not damage the data)
		sym.Assert(kind == 3 && extra.ID == ids[bad], "a damaged file is never forwarded")
		verifSameBytes(extra.Data, datas[bad], "forwarded only when complete")
	default:
		sym.Assert(m.CounterValue("dropped_chunks_total") == 1, "the damaged chunk is counted as dropped")
	}
	// C19: the on-disk gauges match the directory: what is still there is what the gauges say
	files, bytes := 0, 0
	for _, id := range ids {
		if f, ok := fs.Files[id]; ok {
			files++
			bytes += len(f)
		}
	}
	if kind != 3 { // a failing stat leaves the size of that file unknown to the byte gauge
		// an unreadable chunk is counted as dropped while its file stays (and stays counted in the byte gauge, which is the quota)
		droppedButKept := 0
		if _, still := fs.Files[ids[bad]]; still {
			droppedButKept = 1
		}
		sym.Assert(int(m.GaugeValue("persistent_chunks")) == files-droppedButKept, "the file gauge equals the chunk files in the directory that are not counted as dropped")
		sym.Assert(int(m.GaugeValue("persistent_chunk_bytes")) == bytes, "the byte gauge equals the bytes of the chunk files in the directory")
	}
	verifNoDescriptorLeak(fs)
	sym.Reach("recovered")
}

// VerifC04_StaleTempFileDoesNotBlockRecovery: a partial temporary file left by
// a process that died inside the chunk write (before the rename) stays in the
// queue directory while later generations add chunks: at a later start the
// temporary file - wherever it sorts among the chunk files (symbolic position),
// whatever its length - is never taken for a chunk, and every intact chunk is
// recovered in creation order and forwarded byte-identical.
//
//verif:reach recovered
//verif:native off
//verif:solver cvc5-int
func VerifC04_StaleTempFileDoesNotBlockRecovery() {
	fs := fsmodel.Reset()
	ids := []string{"0000000000000000001-00000001.ff", "0000000000000000002-00000001.ff", "0000000000000000003-00000001.ff", "0000000000000000004-00000001.ff"}
	stale := sym.Choice("staleTempPosition", 4) // the chunk whose write was interrupted: it never got its final name
	var datas [4][]byte
	for i, id := range ids {
		datas[i] = sym.BigBytes("data", 1, 3000)
		if i == stale {
			k := sym.IntRange("partialLength", 0, 3000)
			sym.Assume(k <= len(datas[i]))
			fs.Files[id+".tmp"] = append([]byte{}, datas[i][:k]...) // the name WriteFileAt gives its temporary file
			continue
		}
		fs.Files[id] = append([]byte{}, datas[i]...)
	}
	m := fakes.NewMetrics()
	feeder, man := verifNewFeeder(m, 1<<40)
	recovered := man.ScanChunks()
	sym.Assert(len(recovered) == 3, "every intact chunk file is listed, the temporary file is not")
	for _, c := range recovered {
		man.OnChunkInputRecovered(c)
	}
	for _, c := range recovered {
		if !feeder.loadToOutput(c) {
			break
		}
	}
	for i := 0; i < 4; i++ {
		if i == stale {
			continue
		}
		select {
		case out := <-feeder.outputChannel:
			sym.Assert(out.ID == ids[i], "intact chunks are forwarded in creation order; the temporary file is never forwarded")
			verifSameBytes(out.Data, datas[i], "intact chunk forwarded byte-identical")
		default:
			sym.Assert(false, "an intact chunk is not blocked by a stale temporary file")
		}
	}
	select {
	case <-feeder.outputChannel:
		sym.Assert(false, "nothing but the intact chunks is forwarded")
	default:
	}
	sym.Assert(m.CounterValue("dropped_chunks_total") == 0, "no intact chunk is dropped")
	verifNoDescriptorLeak(fs)
	sym.Reach("recovered")
}

// VerifC03_CrashLeavesNoPhantomChunk: the fault-at-any-position run read for C03: after a crash in the middle of a
// save and a restart, the consumer receives only chunks that were accepted (no temporary or partial file is taken
// for a chunk), in creation order, each at most once.
//
//verif:reach crashed survived
//verif:native off
//verif:solver cvc5-int
//verif:paths 100000
func VerifC03_CrashLeavesNoPhantomChunk() { VerifC04_FaultAtAnyQueuePosition() }

// VerifC03_DamagedChunkIsCounted: the damaged-file run read for C03 (every recovered chunk is forwarded or counted as dropped).
//
//verif:reach recovered
//verif:native off
//verif:solver cvc5-int
func VerifC03_DamagedChunkIsCounted() { VerifC04_DamagedFileDoesNotBlockRecovery() }

// VerifC19_DamagedChunkAccounting: the damaged-file run read for C19 (dropped counter, on-disk gauges).
//
//verif:reach recovered
//verif:native off
//verif:solver cvc5-int
func VerifC19_DamagedChunkAccounting() { VerifC04_DamagedFileDoesNotBlockRecovery() }
