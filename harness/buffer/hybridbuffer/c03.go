package hybridbuffer

// C03 — the hybrid buffer conserves chunks, keeps FIFO order, never blocks the
// producer and stays within its disk limit. Real bufferer / feeder / chunk
// manager / operator on the file-system model; capacities scaled down (package
// variables): queue 2, memory window 2.

import (
	"time"

	"github.com/relex/gotils/logger"
	"github.com/relex/slog-agent/base"
	"github.com/relex/slog-agent/defs"
	"github.com/relex/slog-agent/zz_verif/fakes"
	"github.com/relex/slog-agent/zz_verif/fsmodel"
	"github.com/relex/slog-agent/zz_verif/sym"
)

var verifIDs = []string{"0000000000000000001-00000001.ff", "0000000000000000002-00000001.ff", "0000000000000000003-00000001.ff",
	"0000000000000000004-00000001.ff", "0000000000000000005-00000001.ff"}

func verifScale() func() {
	q, w := defs.BufferMaxNumChunksInQueue, defs.BufferMaxNumChunksInMemory
	defs.BufferMaxNumChunksInQueue, defs.BufferMaxNumChunksInMemory = 2, 2
	return func() { defs.BufferMaxNumChunksInQueue, defs.BufferMaxNumChunksInMemory = q, w }
}

func verifDiskBytes(fs *fsmodel.FS) int {
	n := 0
	for _, name := range fs.Names() {
		if verifMatchFF(name) {
			n += len(fs.Files[name])
		}
	}
	return n
}

type verifConsumer struct {
	args     base.ChunkConsumerArgs
	taken    []base.LogChunk // received from the window, in order
	consumed []string
	handBack []base.LogChunk
}

// run is the consumer goroutine: it takes chunks from the window; each one is
// confirmed or kept (per script); when the buffer signals the end it hands
// the kept ones back and finishes.
func (c *verifConsumer) run(script []int) {
	i := 0
	for chunk := range c.args.InputChannel {
		c.taken = append(c.taken, chunk)
		action := 0
		if i < len(script) {
			action = script[i]
		}
		i++
		if action == 0 {
			c.args.OnChunkConsumed(chunk)
			c.consumed = append(c.consumed, chunk.ID)
		} else {
			c.handBack = append(c.handBack, chunk)
		}
	}
	for _, chunk := range c.handBack {
		c.args.OnChunkLeftover(chunk)
	}
	c.args.OnFinished()
}

// VerifC03_Conservation: k accepted chunks of symbolic size, a consumer that
// confirms or keeps each chunk it gets (symbolic script), a symbolic disk limit,
// then Destroy: every accepted chunk is confirmed (file gone) or a complete
// file in the directory or counted as dropped - exactly one of them; the
// consumer saw them in acceptance order; the directory is within the limit.
//
//verif:native off
//verif:solver cvc5-int
//verif:preempt 0
//verif:reach done spilled handed-back dropped
//verif:paths 100000
func VerifC03_Conservation() {
	defer verifScale()()
	fs := fsmodel.Reset()
	m := fakes.NewMetrics()
	limit := sym.IntRange("diskLimit", 0, 300)
	buf := newBufferer(logger.Root(), "/root", "id1", verifMatchFF, m, int64(limit), false).(*bufferer)
	buf.Start()
	cons := &verifConsumer{args: buf.RegisterNewConsumer()}
	script := []int{sym.Choice("consumerAction", 2), 0, 0, 0, 0}
	if sym.Tier() > 0 {
		script[1] = sym.Choice("consumerAction", 2)
	}
	k := 3 + sym.Tier()
	datas := make([][]byte, k)
	started := false
	startAt := sym.Choice("consumerStartsAt", 2+sym.Tier()) * 2 // before chunk 0, before chunk 2, [or only at shutdown]
	if sym.Tier() == 0 && startAt == 2 {
		startAt = 9 // quick: at the start or only at shutdown
	}
	for i := 0; i < k; i++ {
		datas[i] = sym.BigBytes("data", 1, 100)
		if !started && i == startAt {
			go cons.run(script)
			started = true
		}
		buf.Accept(base.LogChunk{ID: verifIDs[i], Data: append([]byte{}, datas[i]...)}) // must never block
		sym.Assert(verifDiskBytes(fs) <= limit, "queue files within the configured size limit")
		if i%2 == 0 {
			sym.Yield() // the feeder and the consumer may run here
		}
	}
	if !started {
		go cons.run(script)
	}
	buf.Destroy()
	sym.Assert(buf.Stopped().Peek(), "the buffer has stopped when Destroy returns")
	// ---- conservation ----
	dropped := int(m.CounterValue("dropped_chunks_total", "hybridBuffer"))
	onDisk, confirmed := 0, 0
	for i := 0; i < k; i++ {
		isConfirmed := false
		for _, id := range cons.consumed {
			if id == verifIDs[i] {
				isConfirmed = true
			}
		}
		file, isFile := fs.Files[verifIDs[i]]
		sym.Assert(!(isConfirmed && isFile), "a confirmed chunk has no file left")
		if isFile {
			verifSameBytes(file, datas[i], "a chunk left on disk is complete")
			onDisk++
		}
		if isConfirmed {
			confirmed++
		}
	}
	sym.Assert(confirmed+onDisk+dropped == k, "every accepted chunk is confirmed, on disk, or counted as dropped - exactly one of them")
	// ---- C19: per-output chunk counters balance ----
	inT := int(m.CounterValue("input_chunks_total")) // (vector: read below)
	_ = inT
	consumedC := int(m.CounterValue("consumed_chunks_total", "hybridBuffer"))
	leftoverC := int(m.CounterValue("leftover_chunks_total", "hybridBuffer"))
	pendingG := int(m.GaugeValue("pending_chunks", "hybridBuffer"))
	sym.Assert(consumedC == confirmed, "consumed counter = chunks confirmed by the consumer")
	sym.Assert(consumedC+leftoverC+dropped+pendingG == k, "accepted = delivered + handed back + dropped + still pending")
	sym.Assert(leftoverC+pendingG == onDisk, "left on disk = handed back + saved by the buffer itself")
	for i := 1; i < len(cons.taken); i++ {
		sym.Assert(cons.taken[i-1].ID < cons.taken[i].ID, "chunks reach the consumer in acceptance order")
	}
	for i, c := range cons.taken {
		for j := 0; j < k; j++ {
			if c.ID == verifIDs[j] {
				verifSameBytes(c.Data, datas[j], "a chunk reaching the consumer is unchanged")
			}
		}
		_ = i
	}
	sym.Assert(verifDiskBytes(fs) <= limit, "queue files within the limit after shutdown")
	if onDisk > 0 {
		sym.Reach("spilled")
	}
	if len(cons.handBack) > 0 {
		sym.Reach("handed-back")
	}
	if dropped > 0 {
		sym.Reach("dropped")
	}
	sym.Reach("done")
}

// VerifC03_RestartGenerations: a directory left by a previous run (up to four
// chunk files created in any order, plus the .id file and a stray file), then a
// fresh start: the recovered chunks are queued before anything new, in creation
// (id) order, and reach the consumer complete; the byte gauge equals the
// recovered files; files beyond the queue capacity stay on disk.
//
//verif:native off
//verif:solver cvc5-int
//verif:preempt 0
//verif:reach done over-capacity
func VerifC03_RestartGenerations() {
	defer verifScale()()
	defs.BufferMaxNumChunksInQueue = 3
	fs := fsmodel.Reset()
	n := sym.Choice("numFiles", 5)
	order := [][]int{{0, 1, 2, 3}, {3, 1, 0, 2}, {2, 3, 1, 0}}[sym.Choice("creationOrder", 3)]
	var datas [4][]byte
	present := map[int]bool{}
	fs.Files[".id"] = []byte("id1")
	for c := 0; c < n; c++ {
		i := order[c]
		datas[i] = sym.BigBytes("data", 1, 100)
		fs.Files[verifIDs[i]] = append([]byte{}, datas[i]...)
		present[i] = true
	}
	fs.Files["stray.tmp"] = []byte("x")
	m := fakes.NewMetrics()
	buf := newBufferer(logger.Root(), "/root", "id1", verifMatchFF, m, 1<<30, false).(*bufferer)
	buf.Start()
	// the recovered chunks (the first three in id order) count against the size limit from the start
	recoveredBytes, recoveredFiles := 0, 0
	for i := 0; i < 4; i++ {
		if present[i] && recoveredFiles < 3 {
			recoveredBytes += len(datas[i])
			recoveredFiles++
		}
	}
	sym.Assert(int(m.GaugeValue("persistent_chunk_bytes", "hybridBuffer")) == recoveredBytes, "the byte gauge equals the recovered files")
	sym.Assert(int(m.GaugeValue("persistent_chunks", "hybridBuffer")) == recoveredFiles, "the file gauge equals the recovered files")
	cons := &verifConsumer{args: buf.RegisterNewConsumer()}
	newData := sym.BigBytes("newData", 1, 100)
	buf.Accept(base.LogChunk{ID: verifIDs[4], Data: append([]byte{}, newData...)})
	go cons.run(nil) // confirms everything
	sym.Yield()
	buf.Destroy()
	// expected: recovered ids in sorted order (first 3 at most), then the new one if the queue had room
	var want []int
	for i := 0; i < 4; i++ {
		if present[i] && len(want) < 3 {
			want = append(want, i)
		}
	}
	// what the consumer got is a prefix of: recovered chunks in id order, then the new chunk
	seq := append(append([]int{}, want...), 4)
	sym.Assert(len(cons.taken) <= len(seq), "nothing is delivered twice")
	for j := range cons.taken {
		if j < len(seq) {
			sym.Assert(cons.taken[j].ID == verifIDs[seq[j]], "recovered chunks come first, in creation order, then the new chunk")
			if seq[j] < 4 {
				verifSameBytes(cons.taken[j].Data, datas[seq[j]], "recovered chunk is complete")
			}
		}
	}
	// recovered chunks that were not delivered are still complete on disk
	for j, i := range want {
		if j >= len(cons.taken) {
			file, ok := fs.Files[verifIDs[i]]
			sym.Assert(ok, "an undelivered recovered chunk stays on disk")
			if ok {
				verifSameBytes(file, datas[i], "an undelivered recovered chunk is complete")
			}
		}
	}
	if n == 4 {
		_, still := fs.Files[verifIDs[3]]
		sym.Assert(still, "a file beyond the queue capacity stays on disk for the next start")
		sym.Reach("over-capacity")
	}
	_, stray := fs.Files["stray.tmp"]
	sym.Assert(stray && string(fs.Files[".id"]) == "id1", "files that are not chunks are left alone")
	sym.Reach("done")
}

func verifOvertakeScenario(checkBeforeShutdown bool) {
	defer verifScale()()
	defs.BufferMaxNumChunksInQueue, defs.BufferMaxNumChunksInMemory = 4, 4
	fs := fsmodel.Reset()
	n := 1 + sym.Choice("recoveredFiles", 2)
	var datas [2][]byte
	for i := 0; i < n; i++ {
		datas[i] = sym.BigBytes("data", 1, 100)
		fs.Files[verifIDs[i]] = append([]byte{}, datas[i]...)
	}
	m := fakes.NewMetrics()
	buf := newBufferer(logger.Root(), "/root", "id1", verifMatchFF, m, 1<<30, false).(*bufferer)
	buf.Start()
	cons := &verifConsumer{args: buf.RegisterNewConsumer()}
	sym.Yield() // the feeder may start working on the recovered chunks
	buf.Accept(base.LogChunk{ID: verifIDs[4], Data: []byte{9, 9, 9}})
	go cons.run(nil) // confirms everything
	check := func(label string) {
		for j := range cons.taken {
			want := verifIDs[4]
			if j < n {
				want = verifIDs[j]
			}
			sym.Assert(j <= n && cons.taken[j].ID == want, label)
		}
	}
	if checkBeforeShutdown {
		time.Sleep(time.Second) // quiescence: the feeder and the consumer have moved everything they can
		sym.Assert(len(cons.taken) == n+1, "with a consumer that keeps up every queued chunk reaches it")
		check("chunks recovered from disk reach the consumer before a chunk accepted later, in creation order")
		buf.Destroy()
	} else {
		sym.Yield()
		buf.Destroy()
		check("chunks reach the consumer in creation order [consumer still reading the window while the feeder saves it at shutdown]")
	}
	sym.Reach("done")
}

// VerifC05_NewChunkDoesNotOvertakeRecovered: one or two chunk files recovered
// at start; the feeder goroutine may be suspended at any call inside the
// buffer package - e.g. after it has taken the last recovered chunk from the
// queue and before it has loaded it from disk and passed it on - when a new
// chunk is accepted; the consumer keeps up and the order is looked at before
// any shutdown: recovered chunks first, in creation order, the new chunk last.
//
//verif:native off
//verif:solver cvc5-int
//verif:preempt 1
//verif:preemptcalls github.com/relex/slog-agent/buffer/hybridbuffer
//verif:delays 1
//verif:clock virtual
//verif:reach done
//verif:paths 200000
func VerifC05_NewChunkDoesNotOvertakeRecovered() { verifOvertakeScenario(true) }

// VerifC03_NewChunkDoesNotOvertakeRecovered: the same run read for C03 (FIFO across recovery).
//
//verif:native off
//verif:solver cvc5-int
//verif:preempt 1
//verif:preemptcalls github.com/relex/slog-agent/buffer/hybridbuffer
//verif:delays 1
//verif:clock virtual
//verif:reach done
//verif:paths 200000
func VerifC03_NewChunkDoesNotOvertakeRecovered() { verifOvertakeScenario(true) }

// VerifC05_ShutdownDrainKeepsOrder: the same scenario with the shutdown started
// while the consumer is still reading: the feeder's final save drains the
// output window ("consumers already quit") concurrently with a consumer that
// reads until the window is closed - as the real client's normal stage does.
// Known finding C05-F1: the consumer can receive a newer chunk while an older
// one is taken by the feeder and goes back to disk for the next start.
//
//verif:native off
//verif:solver cvc5-int
//verif:preempt 1
//verif:preemptcalls github.com/relex/slog-agent/buffer/hybridbuffer
//verif:delays 1
//verif:reach done
//verif:paths 200000
func VerifC05_ShutdownDrainKeepsOrder() { verifOvertakeScenario(false) }

// VerifC03_NoDirectory: the queue directory cannot be opened: nothing claims to
// be saved; every chunk is confirmed by the consumer or counted as dropped.
//
//verif:native off
//verif:preempt 0
//verif:reach done
func VerifC03_NoDirectory() {
	defer verifScale()()
	fs := fsmodel.Reset()
	fs.NoDir = true
	m := fakes.NewMetrics()
	buf := newBufferer(logger.Root(), "/root", "id1", verifMatchFF, m, 1<<30, false).(*bufferer)
	buf.Start()
	cons := &verifConsumer{args: buf.RegisterNewConsumer()}
	k := 3
	for i := 0; i < k; i++ {
		buf.Accept(base.LogChunk{ID: verifIDs[i], Data: []byte{1, 2, 3}})
		if i == 0 {
			go cons.run([]int{sym.Choice("consumerAction", 2)})
		}
		sym.Yield()
	}
	buf.Destroy()
	if !buf.Stopped().Peek() {
		return // Destroy gave up waiting (its timeout): shutdown liveness is C18, not this claim
	}
	dropped := int(m.CounterValue("dropped_chunks_total", "hybridBuffer"))
	sym.Assert(len(fs.Names()) == 0, "no file appears without a directory")
	sym.Assert(len(cons.consumed)+dropped == k, "every chunk is confirmed or counted as dropped")
	sym.Reach("done")
}

// VerifC03_MemoryBoundWithoutDirectory: "only a fixed number of chunks stay in
// memory" when chunks cannot be spilled at all (the queue directory cannot be
// opened) and the consumer is stalled: between two accepts the feeder runs
// until it blocks (virtual time passes), so the only chunks in memory are the
// output window, the one the feeder holds and - while the window is less than
// half full - the ones just queued; every further chunk is counted as dropped
// instead of piling up in the queue. Without a directory nothing is unloaded,
// so every queued chunk is a chunk in memory.
//
//verif:native off
//verif:preempt 0
//verif:clock virtual
//verif:reach done dropped
func VerifC03_MemoryBoundWithoutDirectory() {
	defer verifScale()()
	defs.BufferMaxNumChunksInQueue = 4
	defs.BufferMaxNumChunksInMemory = 2 + 2*sym.Choice("memoryWindowHalf", 2) // window of 2 or 4 chunks
	fs := fsmodel.Reset()
	fs.NoDir = true
	m := fakes.NewMetrics()
	buf := newBufferer(logger.Root(), "/root", "id1", verifMatchFF, m, 1<<30, false).(*bufferer)
	buf.Start()
	args := buf.RegisterNewConsumer()
	takes := sym.Choice("consumerTakesBeforeStalling", 3) // the consumer takes 0..2 chunks (never confirms them), then stalls
	go func() {
		for i := 0; i < takes; i++ {
			<-args.InputChannel
		}
	}()
	k := 4 + sym.Choice("extraChunks", 2)
	for i := 0; i < k; i++ {
		buf.Accept(base.LogChunk{ID: verifIDs[i], Data: []byte{1, 2, 3}}) // must never block
		time.Sleep(time.Second)                                           // quiescence: the feeder has moved what it can
		inMemory := len(buf.inputChannel) + len(buf.feeder.outputChannel) + 1
		sym.Assert(inMemory <= defs.BufferMaxNumChunksInMemory+1+defs.BufferMaxNumChunksInMemory/2,
			"with no queue directory and a stalled consumer the chunks kept in memory stay within the memory window (plus the one in the feeder's hands and the half-window slack of Accept)")
	}
	dropped := int(m.CounterValue("dropped_chunks_total", "hybridBuffer"))
	sym.Assert(len(buf.inputChannel)+len(buf.feeder.outputChannel)+1+takes+dropped >= k, "every accepted chunk is in memory, with the consumer, or counted as dropped")
	sym.Assert(len(fs.Names()) == 0, "no file appears without a directory")
	if dropped > 0 {
		sym.Reach("dropped")
	}
	sym.Reach("done")
}

// VerifC03_QueueOverflowKeepsLimit: a stalled consumer, memory window 1 and
// queue 1: chunks are spilled, the queue overflows and spilled chunks are
// dropped (their files stay): the directory never exceeds the limit and every
// overflow is counted.
//
//verif:native off
//verif:solver cvc5-int
//verif:preempt 0
//verif:reach overflowed done
func VerifC03_QueueOverflowKeepsLimit() {
	defer verifScale()()
	defs.BufferMaxNumChunksInQueue, defs.BufferMaxNumChunksInMemory = 1, 1
	fs := fsmodel.Reset()
	m := fakes.NewMetrics()
	limit := sym.IntRange("diskLimit", 0, 500)
	buf := newBufferer(logger.Root(), "/root", "id1", verifMatchFF, m, int64(limit), false).(*bufferer)
	buf.Start()
	buf.RegisterNewConsumer() // never reads: stalled
	k := 5
	for i := 0; i < k; i++ {
		data := sym.BigBytes("data", 1, 100)
		buf.Accept(base.LogChunk{ID: verifIDs[i], Data: append([]byte{}, data...)}) // must never block
		sym.Assert(verifDiskBytes(fs) <= limit, "queue files within the configured size limit")
		sym.Yield()
	}
	dropped := int(m.CounterValue("dropped_chunks_total", "hybridBuffer"))
	pending := int(m.GaugeValue("pending_chunks", "hybridBuffer"))
	sym.Assert(pending+dropped == k, "every accepted chunk is pending or counted as dropped")
	sym.Assert(int(m.GaugeValue("persistent_chunk_bytes", "hybridBuffer")) >= verifDiskBytes(fs), "the byte gauge covers every file in the directory")
	if dropped > 0 {
		sym.Reach("overflowed")
	}
	sym.Reach("done")
}

// VerifC03_LimitAcrossRestart: the size limit holds across generations: a
// directory left by a previous run (one or two chunk files of symbolic size),
// a symbolic limit, a stalled consumer and a memory window of 1: every chunk
// accepted after the restart is spilled only while recovered + new files stay
// within the limit (a directory that already exceeds a lowered limit does not grow).
//
//verif:native off
//verif:solver cvc5-int
//verif:preempt 0
//verif:reach refused spilled done
func VerifC03_LimitAcrossRestart() {
	defer verifScale()()
	defs.BufferMaxNumChunksInQueue, defs.BufferMaxNumChunksInMemory = 4, 1
	fs := fsmodel.Reset()
	fs.Files[".id"] = []byte("id1")
	n := 1 + sym.Choice("oldFiles", 2)
	old := 0
	for i := 0; i < n; i++ {
		d := sym.BigBytes("old", 1, 100)
		fs.Files[verifIDs[i]] = append([]byte{}, d...)
		old += len(d)
	}
	m := fakes.NewMetrics()
	limit := sym.IntRange("diskLimit", 0, 400)
	buf := newBufferer(logger.Root(), "/root", "id1", verifMatchFF, m, int64(limit), false).(*bufferer)
	buf.Start()
	buf.RegisterNewConsumer() // never reads: stalled
	bound := limit
	if old > bound {
		bound = old
	}
	for i := n; i < n+3; i++ {
		data := sym.BigBytes("data", 1, 100)
		before := verifDiskBytes(fs)
		buf.Accept(base.LogChunk{ID: verifIDs[i], Data: append([]byte{}, data...)}) // must never block
		sym.Assert(verifDiskBytes(fs) <= bound, "queue files stay within the size limit across a restart")
		if verifDiskBytes(fs) > before {
			sym.Reach("spilled")
		}
		sym.Yield()
	}
	if int(m.CounterValue("dropped_chunks_total", "hybridBuffer")) > 0 {
		sym.Reach("refused")
	}
	sym.Assert(int(m.GaugeValue("persistent_chunk_bytes", "hybridBuffer")) >= verifDiskBytes(fs), "the byte gauge covers every file in the directory")
	sym.Reach("done")
}

// VerifC03_StalledConsumerAtShutdown: a consumer that has registered but takes
// nothing and never finishes (stalled upstream client past every timeout):
// four chunks of symbolic size fill the memory window and the queue, then
// Destroy: it returns (after its timeout, virtual time) and every accepted
// chunk is a complete file in the directory or counted as dropped - nothing
// stays only in memory because a consumer is stuck.
//
//verif:native off
//verif:solver cvc5-int
//verif:preempt 0
//verif:clock virtual
//verif:reach done
func VerifC03_StalledConsumerAtShutdown() {
	defer verifScale()()
	fs := fsmodel.Reset()
	m := fakes.NewMetrics()
	buf := newBufferer(logger.Root(), "/root", "id1", verifMatchFF, m, 1<<30, false).(*bufferer)
	buf.Start()
	buf.RegisterNewConsumer() // never reads, never calls OnFinished
	k := 3 + sym.Choice("extraChunks", 2)
	var datas [4][]byte
	for i := 0; i < k; i++ {
		datas[i] = sym.BigBytes("data", 1, 100)
		buf.Accept(base.LogChunk{ID: verifIDs[i], Data: append([]byte{}, datas[i]...)})
		sym.Yield()
	}
	// the feeder cannot finish (it waits for the consumer); Destroy gives up after its timeout - once
	destroyed := make(chan struct{})
	go func() { buf.Destroy(); close(destroyed) }()
	select {
	case <-destroyed:
	case <-time.After(defs.BufferShutDownTimeout + 2*defs.IntermediateChannelTimeout):
		sym.Assert(false, "Destroy returns within the shutdown bound (BufferShutDownTimeout + IntermediateChannelTimeout) even when a consumer never finishes")
		return
	}
	dropped := int(m.CounterValue("dropped_chunks_total", "hybridBuffer"))
	files := 0
	for i := 0; i < k; i++ {
		if f, ok := fs.Files[verifIDs[i]]; ok {
			files++
			verifSameBytes(f, datas[i], "a chunk saved at shutdown is complete")
		}
	}
	sym.Assert(files+dropped == k, "with a stalled consumer every accepted chunk is a file in the queue directory after shutdown or counted as dropped")
	sym.Reach("done")
}

// VerifC18_StalledConsumerAtShutdown: the same run read for C18 (Destroy returns; no chunk is left only in memory).
//
//verif:native off
//verif:solver cvc5-int
//verif:preempt 0
//verif:clock virtual
//verif:reach done
func VerifC18_StalledConsumerAtShutdown() { VerifC03_StalledConsumerAtShutdown() }

// VerifC03_DestroyWaitsForSlowHandback: the consumer holds the oldest chunk
// and needs up to the client's own stop bound (a hung ACK read running into
// its timeout, 0 / 100 / 140 s of virtual time) before it hands the chunk back
// and finishes: Destroy waits for it (its timeout is dimensioned for exactly
// that), so when Destroy returns the feeder has stopped and the handed-back
// chunk is a file - a successor started on the same directory then recovers
// it before anything newer.
//
//verif:native off
//verif:solver cvc5-int
//verif:preempt 0
//verif:clock virtual
//verif:reach done
func VerifC03_DestroyWaitsForSlowHandback() {
	defer verifScale()()
	fs := fsmodel.Reset()
	m := fakes.NewMetrics()
	buf := newBufferer(logger.Root(), "/root", "id1", verifMatchFF, m, 1<<30, false).(*bufferer)
	buf.Start()
	args := buf.RegisterNewConsumer()
	delay := []time.Duration{0, 100 * time.Second, 140 * time.Second}[sym.Choice("consumerStopDelay", 3)]
	sym.Assert(delay <= defs.ForwarderBatchAckTimeout+defs.IntermediateChannelTimeout, "the scripted delay is within the client's stop bound")
	go func() {
		var held []base.LogChunk
		for chunk := range args.InputChannel {
			held = append(held, chunk)
		}
		time.Sleep(delay) // e.g. an ACK read that runs into its timeout before the client can stop
		for _, chunk := range held {
			args.OnChunkLeftover(chunk)
		}
		args.OnFinished()
	}()
	data := sym.BigBytes("data", 1, 100)
	buf.Accept(base.LogChunk{ID: verifIDs[0], Data: append([]byte{}, data...)})
	buf.Accept(base.LogChunk{ID: verifIDs[1], Data: []byte{1, 2, 3}})
	sym.Yield()
	buf.Destroy()
	sym.Assert(buf.Stopped().Peek(), "Destroy returns only after the feeder has stopped when the consumer finishes within the client's stop bound")
	f, ok := fs.Files[verifIDs[0]]
	sym.Assert(ok, "the chunk handed back at shutdown is in the queue directory when Destroy returns")
	if ok {
		verifSameBytes(f, data, "the handed-back chunk is complete")
	}
	_, ok2 := fs.Files[verifIDs[1]]
	sym.Assert(ok2, "every chunk is in the queue directory when Destroy returns")
	sym.Reach("done")
}

// VerifC05_DestroyWaitsForSlowHandback: the same run read for C05 (the oldest chunk must be on disk before a successor scans the directory).
//
//verif:native off
//verif:solver cvc5-int
//verif:preempt 0
//verif:clock virtual
//verif:reach done
func VerifC05_DestroyWaitsForSlowHandback() { VerifC03_DestroyWaitsForSlowHandback() }

// VerifC18_DestroyWaitsForSlowHandback: the same run read for C18.
//
//verif:native off
//verif:solver cvc5-int
//verif:preempt 0
//verif:clock virtual
//verif:reach done
func VerifC18_DestroyWaitsForSlowHandback() { VerifC03_DestroyWaitsForSlowHandback() }

// VerifC05_RecoveryOrder: restart recovery read as the ordering guarantee.
//
//verif:native off
//verif:solver cvc5-int
//verif:preempt 0
//verif:reach done over-capacity
func VerifC05_RecoveryOrder() { VerifC03_RestartGenerations() }

// VerifC18_BufferStops: after Destroy the feeder has stopped and nothing is
// left only in memory when a queue directory is available (C03 conservation run).
//
//verif:native off
//verif:solver cvc5-int
//verif:preempt 0
//verif:reach done spilled handed-back dropped
//verif:paths 100000
func VerifC18_BufferStops() { VerifC03_Conservation() }

// VerifC01_BufferCustody: link L4 of the custody chain.
//
//verif:native off
//verif:solver cvc5-int
//verif:preempt 0
//verif:reach done spilled handed-back dropped
//verif:paths 100000
func VerifC01_BufferCustody() { VerifC03_Conservation() }

// VerifC01_RestartCustody: link L6: files left by a previous run are queued first, complete.
//
//verif:native off
//verif:solver cvc5-int
//verif:preempt 0
//verif:reach done over-capacity
func VerifC01_RestartCustody() { VerifC03_RestartGenerations() }

// VerifC19_BufferCounters: the conservation run read as the per-output balance of the buffer metrics.
//
//verif:native off
//verif:solver cvc5-int
//verif:preempt 0
//verif:reach done spilled handed-back dropped
//verif:paths 100000
func VerifC19_BufferCounters() { VerifC03_Conservation() }
