package syslogprotocol

import "github.com/relex/slog-agent/zz_verif/sym"

// VerifC07_RecordStartAnyBytes: TestRecordStart never panics and accepts only
// lines of at least 32 bytes that begin with "<", 1-3 digits, ">1 ".
//
//verif:reach accepted rejected
func VerifC07_RecordStartAnyBytes() {
	n := sym.Choice("len", 37)
	s := sym.Bytes("line", n, n)
	ok := TestRecordStart(s)
	if ok {
		sym.Assert(n >= 32 && s[0] == '<' && s[1] >= '0' && s[1] <= '9', "accepted lines start with '<' and a digit and are long enough")
		i := 2
		for i < 4 && s[i] >= '0' && s[i] <= '9' {
			i++
		}
		sym.Assert(s[i] == '>' && s[i+1] == '1' && s[i+2] == ' ', "accepted lines carry '>1 ' after at most three digits")
		sym.Reach("accepted")
	} else {
		sym.Reach("rejected")
	}
}

// verifRefRecordStart is the documented shape: at least 32 bytes, "<", one to
// three decimal digits (PRIVAL 0..999 syntactically), ">", version "1", space.
func verifRefRecordStart(s []byte) bool {
	if len(s) < 32 || s[0] != '<' {
		return false
	}
	d := 0
	for d < 3 && s[1+d] >= '0' && s[1+d] <= '9' {
		d++
	}
	return d >= 1 && s[1+d] == '>' && s[2+d] == '1' && s[3+d] == ' '
}

// VerifC08_RecordStartExact: framing rests on the record-start test: it must
// accept exactly the documented shape - every priority (0 and leading zeros
// included), every digit count - for lines of 0..36 bytes over all byte values.
//
//verif:reach accepted rejected
func VerifC08_RecordStartExact() {
	n := sym.Choice("len", 37)
	s := sym.Bytes("line", n, n)
	ok := TestRecordStart(s)
	sym.Assert(ok == verifRefRecordStart(s), "the record-start test accepts exactly '<' 1-3 digits '>1 ' on lines of at least 32 bytes")
	if ok {
		sym.Reach("accepted")
	} else {
		sym.Reach("rejected")
	}
}
