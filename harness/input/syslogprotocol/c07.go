package syslogprotocol

import "github.com/relex/slog-agent/zz_verif/sym"

// VerifC07_RecordStartAnyBytes: TestRecordStart never panics and accepts only
// lines of at least 32 bytes that begin with "<", 1-3 digits, ">1 ".
//
//verif:reach accepted rejected
func VerifC07_RecordStartAnyBytes() {
	n := sym.Choice("len", 37)
	s := sym.Bytes("line", n, n)
	ok := TestRecordStart(s)
	if ok {
		sym.Assert(n >= 32 && s[0] == '<' && s[1] >= '0' && s[1] <= '9', "accepted lines start with '<' and a digit and are long enough")
		i := 2
		for i < 4 && s[i] >= '0' && s[i] <= '9' {
			i++
		}
		sym.Assert(s[i] == '>' && s[i+1] == '1' && s[i+2] == ' ', "accepted lines carry '>1 ' after at most three digits")
		sym.Reach("accepted")
	} else {
		sym.Reach("rejected")
	}
}
