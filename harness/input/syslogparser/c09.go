package syslogparser

// C09 — header parsing is faithful, every message is accounted for.
// C07 — (parse stage) no byte string can make Parse panic.

import (
	"time"
	"unicode/utf8"

	"github.com/relex/gotils/logger"
	"github.com/relex/slog-agent/base"
	"github.com/relex/slog-agent/defs"
	"github.com/relex/slog-agent/input/syslogprotocol"
	"github.com/relex/slog-agent/zz_verif/fakes"
	"github.com/relex/slog-agent/zz_verif/sym"
)

var verifCustomLevels = []string{"L0", "L1", "L2", "L3", "L4", "L5", "L6", "L7"}

type verifParserEnv struct {
	m      *fakes.Metrics
	cnt    *base.LogInputCounterSet
	parser base.LogParser
}

func verifNewParser(levels []string) *verifParserEnv {
	schema := syslogprotocol.RFC5424Schema
	m := fakes.NewMetrics()
	cnt := base.NewLogInputCounter(m)
	p, err := NewParser(logger.Root(), base.NewLogAllocator(schema, 1), schema, levels, cnt)
	if err != nil {
		panic(err)
	}
	return &verifParserEnv{m, cnt, p}
}

// counters returns (passed, passedBytes, dropped, droppedBytes, overflow) after flushing to the metrics.
func (e *verifParserEnv) counters() (uint64, uint64, uint64, uint64, uint64) {
	e.cnt.UpdateMetrics()
	return e.m.CounterValue("passed_records_total"), e.m.CounterValue("passed_record_bytes_total"),
		e.m.CounterValue("dropped_records_total"), e.m.CounterValue("dropped_record_bytes_total"),
		e.cnt.VerifOverflowCount()
}

func verifNoSpace(s string) bool {
	for i := 0; i < len(s); i++ {
		if s[i] == ' ' {
			return false
		}
	}
	return true
}

// VerifC09_Pri: every PRI the digits can denote (0..999), default and custom
// level mapping: accepted iff <= 191, facility = pri>>3, level = mapping[pri&7].
//
//verif:reach accepted rejected
func VerifC09_Pri() {
	nd := sym.Choice("priDigits", 3) + 1
	line := []byte{'<'}
	pri := 0
	for i := 0; i < nd; i++ {
		d := sym.IntRange("priDigit", 0, 9)
		line = append(line, byte('0'+d))
		pri = pri*10 + d
	}
	line = append(line, ">1 2019-08-15T15:50:46.866915+03:00 host1 app1 1234 src1 - hello world"...)
	var levels []string
	custom := sym.Bool("customLevels")
	if custom {
		levels = verifCustomLevels
	}
	env := verifNewParser(levels)
	rec := env.parser.Parse(line, time.Unix(1600000000, 0))
	passed, passedBytes, dropped, droppedBytes, _ := env.counters()
	if pri <= 191 {
		sym.Assert(rec != nil, "PRI 0..191 accepted")
		if rec != nil {
			sym.Assert(rec.Fields[0] == syslogprotocol.FacilityNames[pri>>3], "facility is PRI>>3")
			if custom {
				sym.Assert(rec.Fields[1] == verifCustomLevels[pri&7], "level is custom mapping of PRI&7")
			} else {
				sym.Assert(rec.Fields[1] == syslogprotocol.SeverityNames[pri&7], "level is default mapping of PRI&7")
			}
			sym.Assert(rec.Fields[2] == "2019-08-15T15:50:46.866915+03:00" && rec.Fields[3] == "host1" && rec.Fields[8] == "hello world", "other fields intact")
			sym.Observe("facility", rec.Fields[0])
			sym.Observe("level", rec.Fields[1])
		}
		sym.Assert(passed == 1 && dropped == 0 && passedBytes == uint64(len(line)), "accepted line counted as passed with its length")
		sym.Reach("accepted")
	} else {
		sym.Assert(rec == nil, "PRI above 191 rejected")
		sym.Assert(passed == 0 && dropped == 1 && droppedBytes == uint64(len(line)), "rejected line counted as dropped with its length")
		sym.Reach("rejected")
	}
}

// VerifC09_Tokens: the six header tokens and the message are exactly the substrings of the line.
//
//verif:reach parsed multiline
func VerifC09_Tokens() {
	tokMax := 1
	msgMax := 3
	if sym.Tier() > 0 {
		tokMax, msgMax = 2, 5
	}
	line := []byte("<13>1 ")
	var toks [6]string
	names := [6]string{"time", "host", "app", "pid", "source", "extradata"}
	for i := range toks {
		// lengths are case-split (one path per length vector), contents stay symbolic
		n := sym.Choice(names[i]+"Len", tokMax+1)
		if i == 0 {
			// the time token carries most of the minimal length
			toks[i] = "2019-08-15T15:50:4" + sym.String(names[i], n, n)
		} else {
			toks[i] = sym.String(names[i], n, n)
		}
		sym.Assume(verifNoSpace(toks[i]))
		line = append(append(line, toks[i]...), ' ')
	}
	mn := sym.Choice("msgLen", msgMax+1)
	msg := sym.String("msg", mn, mn)
	line = append(line, msg...)
	sym.Assume(len(line) >= 32)
	env := verifNewParser(nil)
	rec := env.parser.Parse(line, time.Unix(1600000000, 0))
	sym.Assert(rec != nil, "well-formed line accepted")
	if rec == nil {
		return
	}
	sym.Assert(rec.Fields[0] == "user" && rec.Fields[1] == "notice", "PRI 13 = user.notice")
	for i := range toks {
		sym.Assert(rec.Fields[2+i] == toks[i], "header token is the substring of the line")
	}
	sym.Assert(rec.Fields[8] == msg, "message is the rest of the line")
	hasNL := false
	for i := 0; i < len(msg); i++ {
		if msg[i] == '\n' {
			hasNL = true
		}
	}
	sym.Assert(rec.Unescaped == hasNL, "Unescaped iff the message holds a real newline")
	sym.Assert(rec.RawLength == len(line), "RawLength is the input length")
	sym.Observe("host", rec.Fields[3])
	sym.Observe("log", rec.Fields[8])
	if hasNL {
		sym.Reach("multiline")
	}
	sym.Reach("parsed")
}

const verifTail = "3>1 2019-08-15T15:50:46.866915+03:00 host1 app1 1234 src1 - hello"

// verifAnyHead: `head` arbitrary bytes (length case-split 0..max) followed by a
// suffix of a well-formed line whose start is cut at an arbitrary point, so the
// first token, the PRI and the version are whatever the head makes of them.
func verifAnyHead(max int) {
	n := sym.Choice("headLen", max+1)
	head := sym.Bytes("head", n, n)
	for i := range head {
		// case split on where the spaces are (token boundaries); all other byte values stay symbolic
		sym.ConcretizeBool(head[i] == ' ')
	}
	cuts := [4]int{0, 1, 2, 5}
	cut := cuts[sym.Choice("tailCut", 4)]
	line := append(append([]byte{}, head...), verifTail[cut:]...)
	verifParseCounted(line)
}

// verifAnyTokens: a well-formed PRI followed by 0..7 tokens of arbitrary
// non-space bytes (lengths case-split 0..1) and an arbitrary tail: lines with
// missing header fields, empty tokens and short totals.
func verifAnyTokens() {
	line := []byte("<13>1 ")
	k := sym.Choice("numTokens", 8)
	for i := 0; i < k; i++ {
		n := sym.Choice("tokLen", 2)
		tok := sym.String("tok", n, n)
		sym.Assume(verifNoSpace(tok))
		line = append(append(line, tok...), ' ')
	}
	pad := sym.Choice("padLen", 3)
	line = append(line, "2019-08-15T15:50:46.866915+03:00"[:10+pad*11]...)
	m := sym.Choice("restLen", 3)
	line = append(line, sym.Bytes("rest", m, m)...)
	verifParseCounted(line)
}

func verifParseCounted(line []byte) {
	env := verifNewParser(nil)
	rec := env.parser.Parse(line, time.Unix(1600000000, 0)) // obligation: no panic
	passed, passedBytes, dropped, droppedBytes, _ := env.counters()
	sym.Assert(passed+dropped == 1, "message counted exactly once")
	if rec != nil {
		sym.Assert(passed == 1 && passedBytes == uint64(len(line)), "passed counted with byte length")
		sym.Reach("passed")
	} else {
		sym.Assert(dropped == 1 && droppedBytes == uint64(len(line)), "dropped counted with byte length")
		sym.Reach("dropped")
	}
}

// VerifC09_AccountingHead: arbitrary first bytes: exactly one of passed/dropped grows, by one and by len(input).
//
//verif:reach passed dropped
//verif:unwind 100
func VerifC09_AccountingHead() { verifAnyHead(7 + sym.Tier()) }

// VerifC09_AccountingTokens: arbitrary token structure behind a valid PRI.
//
//verif:reach passed dropped
//verif:unwind 100
func VerifC09_AccountingTokens() { verifAnyTokens() }

// VerifC07_ParseAnyHead: the same run read as a robustness claim (no panic).
//
//verif:reach passed dropped
//verif:unwind 100
func VerifC07_ParseAnyHead() { verifAnyHead(7 + sym.Tier()) }

// VerifC07_ParseAnyTokens: no panic for any token structure.
//
//verif:reach passed dropped
//verif:unwind 100
func VerifC07_ParseAnyTokens() { verifAnyTokens() }

// (A harness over fully arbitrary lines of the minimal record length, 32 bytes, was tried and
// removed: every placement of the six token separators is a path (~4e5) and it did not finish in
// 90 minutes; lines below 32 bytes are rejected by the length check alone. The head / token /
// limit harnesses above split the same space by structure instead.)

// VerifC09_Truncation: limits scaled down (message 6, record 46): an over-long
// message is cut to at most the limit, to a prefix, at a valid UTF-8 boundary,
// losing fewer than 4 bytes beyond the cut, and counted as overflow iff cut.
//
//verif:reach cut uncut
func VerifC09_Truncation() {
	defer func(a, b int) { defs.InputLogMaxMessageBytes, defs.InputLogMaxRecordBytes = a, b }(defs.InputLogMaxMessageBytes, defs.InputLogMaxRecordBytes)
	defs.InputLogMaxMessageBytes = 6
	defs.InputLogMaxRecordBytes = 6 + 40
	max := 8
	if sym.Tier() > 0 {
		max = 10
	}
	// valid UTF-8 by construction: a sequence of runes whose widths are case-split
	// (1..4 bytes) and whose bytes are symbolic within the ranges of that width
	var mb []byte
	for len(mb) < max {
		w := sym.Choice("runeWidth", 5) // 0 = stop
		if w == 0 || len(mb)+w > max {
			break
		}
		r := sym.Bytes("rune", w, w)
		switch w {
		case 1:
			sym.Assume(r[0] < 0x80)
		case 2:
			sym.Assume(r[0] >= 0xC2 && r[0] <= 0xDF)
		case 3:
			sym.Assume(r[0] >= 0xE1 && r[0] <= 0xEC)
		case 4:
			sym.Assume(r[0] >= 0xF1 && r[0] <= 0xF3)
		}
		for i := 1; i < w; i++ {
			sym.Assume(r[i] >= 0x80 && r[i] <= 0xBF)
		}
		mb = append(mb, r...)
	}
	msg := string(mb)
	line := append([]byte("<13>1 2019-08-15T15:50:46Z h a p s - "), msg...)
	sym.Assume(len(line) >= 32)
	env := verifNewParser(nil)
	rec := env.parser.Parse(line, time.Unix(1600000000, 0))
	sym.Assert(rec != nil, "over-long message is still accepted")
	if rec == nil {
		return
	}
	out := rec.Fields[8]
	_, _, _, _, overflow := env.counters()
	sym.Assert(len(out) <= 6, "message within the limit")
	sym.Assert(len(out) <= len(msg) && out == msg[:len(out)], "result is a prefix of the message")
	sym.Assert(utf8.ValidString(out), "cut at a valid UTF-8 boundary")
	if len(msg) > 6 {
		sym.Assert(len(out) > 6-4, "fewer than 4 bytes lost beyond the cut")
		sym.Assert(overflow == 1, "overflow counted")
		sym.Reach("cut")
	} else {
		sym.Assert(out == msg, "short message untouched")
		sym.Assert(overflow == 0, "no overflow counted")
		sym.Reach("uncut")
	}
	sym.Observe("out", out)
}

// VerifC19_InputCounters: input passed + dropped = messages received, with byte lengths (arbitrary heads).
//
//verif:reach passed dropped
//verif:unwind 100
func VerifC19_InputCounters() { verifAnyHead(7 + sym.Tier()) }

// VerifC07_ParseAroundLimits: messages around the (scaled) size limits: no panic.
//
//verif:reach cut uncut
func VerifC07_ParseAroundLimits() { VerifC09_Truncation() }

// VerifC16_LevelMappingLength: the syslog input's `levelMapping` of every length
// 0..9 (0 = default names): a mapping the constructor accepts maps every
// severity 0..7 - a record of any PRI 0..191 parses without a panic and carries
// the mapping's name for its severity; any other length is refused when the
// configuration is loaded.
//
//verif:reach accepted rejected
func VerifC16_LevelMappingLength() {
	all := []string{"l0", "l1", "l2", "l3", "l4", "l5", "l6", "l7", "l8"}
	n := sym.Choice("mappingLength", 10)
	levels := all[:n]
	schema := syslogprotocol.RFC5424Schema
	cnt := base.NewLogInputCounter(fakes.NewMetrics())
	p, err := NewParser(logger.Root(), base.NewLogAllocator(schema, 1), schema, levels, cnt)
	if err != nil {
		sym.Assert(n != 0 && n != 8, "a mapping of eight names and the default are accepted")
		sym.Reach("rejected")
		return
	}
	line := []byte{'<'}
	pri := 0
	nd := sym.Choice("priDigits", 3) + 1
	for i := 0; i < nd; i++ {
		d := sym.IntRange("priDigit", 0, 9)
		line = append(line, byte('0'+d))
		pri = pri*10 + d
	}
	sym.Assume(pri <= 191)
	line = append(line, ">1 2019-08-15T15:50:46.866915+03:00 host1 app1 1234 src1 - hello world"...)
	rec := p.Parse(line, time.Unix(1600000000, 0)) // obligation: no panic for any severity
	sym.Assert(rec != nil, "a well-formed record is accepted")
	if rec != nil && n > 0 {
		sym.Assert(pri&7 < n && rec.Fields[1] == levels[pri&7], "the level is the accepted mapping's name for the severity")
	}
	sym.Reach("accepted")
}

// VerifC09_ShortAndEmptyMessagesCounted: messages of 0..3 arbitrary bytes (a
// blank line before the first record, a stray byte): each is counted exactly
// once with its byte length - an empty message moves the record count by one
// and the byte count by nothing -, alone or followed by a second message
// before the counters are written out.
//
//verif:reach empty non-empty
func VerifC09_ShortAndEmptyMessagesCounted() {
	n := sym.Choice("len", 4)
	line := sym.Bytes("line", n, n)
	env := verifNewParser(nil)
	rec := env.parser.Parse(line, time.Unix(1600000000, 0)) // obligation: no panic
	second := sym.Bool("secondMessageBeforeTheUpdate")
	total, bytes := uint64(1), uint64(n)
	if second {
		m := sym.Choice("len2", 3)
		line2 := sym.Bytes("line2", m, m)
		env.parser.Parse(line2, time.Unix(1600000001, 0))
		total, bytes = 2, uint64(n+m)
	}
	passed, passedBytes, dropped, droppedBytes, _ := env.counters()
	sym.Assert(passed+dropped == total, "every message handed to the parser is counted exactly once, however short")
	sym.Assert(passedBytes+droppedBytes == bytes, "every message is counted with its byte length")
	sym.Assert(rec == nil, "a message shorter than any record is not handed on")
	if n == 0 {
		sym.Reach("empty")
	} else {
		sym.Reach("non-empty")
	}
}
