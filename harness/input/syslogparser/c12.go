package syslogparser

// C12 — records are isolated from each other despite record and buffer pooling.
// sync.Pool is the adversarial contract stub: Get returns a new object or ANY
// object previously Put (a decision of the path), so every reuse pattern the
// runtime could produce is covered.

import (
	"time"

	"github.com/relex/gotils/logger"
	"github.com/relex/slog-agent/base"
	"github.com/relex/slog-agent/defs"
	"github.com/relex/slog-agent/input/syslogprotocol"
	"github.com/relex/slog-agent/zz_verif/fakes"
	"github.com/relex/slog-agent/zz_verif/sym"
)

const verifLineA = "<13>1 2019-08-15T15:50:46Z hostA appA 11 srcA - first message AAAA"
const verifLineB = "<14>1 2019-08-15T15:50:47Z hB aB 2 sB - bb"

func verifLine(name, base string, symbolicBytes int) []byte {
	b := []byte(base)
	s := sym.Bytes(name, symbolicBytes, symbolicBytes)
	for i := range s {
		sym.Assume(s[i] != ' ' && s[i] != '\n' && s[i] < 0x80)
	}
	copy(b[len(b)-symbolicBytes:], s)
	return b
}

func verifFieldsEqual(a, b base.LogFields) bool {
	same := len(a) == len(b)
	for i := 0; i < len(a) && i < len(b); i++ {
		if a[i] != b[i] {
			same = false
		}
	}
	return same
}

func verifCopyFields(f base.LogFields) base.LogFields {
	out := make(base.LogFields, len(f))
	for i := range f {
		out[i] = string(append([]byte{}, f[i]...))
	}
	return out
}

func verifParserFor(outputs int) (base.LogParser, *base.LogAllocator) {
	schema := syslogprotocol.RFC5424Schema
	alloc := base.NewLogAllocator(schema, outputs)
	p, err := NewParser(logger.Root(), alloc, schema, nil, base.NewLogInputCounter(fakes.NewMetrics()))
	if err != nil {
		panic(err)
	}
	return p, alloc
}

// VerifC12_ReuseInvisible: parse B on a fresh parser vs parse B after A was
// parsed and released (and after an optional short record in between): the
// result must be identical, whatever the pools hand back.
//
//verif:reach compared reused
//verif:paths 50000
func VerifC12_ReuseInvisible() {
	defer func(v int) { defs.InputLogMinRecordBytesToPool = v }(defs.InputLogMinRecordBytesToPool)
	sym.PoolNondet(true)
	// both sides of the pooling threshold: A pooled (long), B pooled or not
	defs.InputLogMinRecordBytesToPool = []int{32, 50, 1024}[sym.Choice("poolThreshold", 3)]
	now := time.Unix(1600000000, 0)
	lineA := verifLine("a", verifLineA, 3)
	lineB := verifLine("b", verifLineB, 2)
	if sym.Bool("bIsLong") {
		lineB = verifLine("b", verifLineA, 2)
	}
	// reference: B alone on a fresh parser
	fresh, _ := verifParserFor(1)
	want := fresh.Parse(append([]byte{}, lineB...), now)
	sym.Assert(want != nil, "B parses on a fresh parser")
	wantFields := verifCopyFields(want.Fields)
	// history: A, release, [short record, release], then B
	p, alloc := verifParserFor(1)
	ra := p.Parse(lineA, now)
	sym.Assert(ra != nil, "A parses")
	ra.Unescaped = true
	ra.Timestamp = now.Add(5)
	alloc.Release(ra)
	if sym.Bool("shortInBetween") {
		rs := p.Parse([]byte(verifLineB), now)
		alloc.Release(rs)
	}
	got := p.Parse(append([]byte{}, lineB...), now)
	sym.Assert(got != nil, "B parses after A")
	sym.Assert(verifFieldsEqual(got.Fields, wantFields), "fields of B do not depend on what was parsed before")
	sym.Assert(got.Unescaped == want.Unescaped && got.RawLength == want.RawLength && got.Timestamp == want.Timestamp, "flags, length and timestamp do not depend on history")
	if got == ra {
		sym.Reach("reused")
	}
	sym.Reach("compared")
}

// VerifC12_LiveRecordsDoNotAlias: after any history of long/short records
// parsed and released, two records that are alive together never share bytes:
// parsing the second leaves every field of the first intact.
//
//verif:reach checked
//verif:paths 50000
//verif:thorough paths 300000
func VerifC12_LiveRecordsDoNotAlias() {
	defer func(v int) { defs.InputLogMinRecordBytesToPool = v }(defs.InputLogMinRecordBytesToPool)
	sym.PoolNondet(true)
	defs.InputLogMinRecordBytesToPool = 50
	now := time.Unix(1600000000, 0)
	p, alloc := verifParserFor(1)
	// history of up to three parse+release steps, each long (pooled buffer) or short
	steps := sym.Choice("historyLen", 4)
	for i := 0; i < steps; i++ {
		var r *base.LogRecord
		if sym.Bool("long") {
			r = p.Parse([]byte(verifLineA), now)
		} else {
			r = p.Parse([]byte(verifLineB), now)
		}
		alloc.Release(r)
	}
	lineC := verifLine("c", verifLineA, 2)
	lineD := verifLine("d", verifLineA, 2)
	rc := p.Parse(lineC, now)
	sym.Assert(rc != nil, "C parses")
	before := verifCopyFields(rc.Fields)
	rd := p.Parse(lineD, now)
	sym.Assert(rd != nil && rd != rc, "D is a different record")
	sym.Assert(verifFieldsEqual(rc.Fields, before), "parsing D leaves the live record C intact")
	if sym.Tier() > 0 {
		// thorough: C is released while D lives on; a further record (long or short) must not disturb D
		beforeD := verifCopyFields(rd.Fields)
		alloc.Release(rc)
		for i := 0; i < 1; i++ {
			var line []byte
			if sym.Bool("longAfter") {
				line = verifLine("e", verifLineA, 2)
			} else {
				line = verifLine("e", verifLineB, 1)
			}
			re := p.Parse(line, now)
			sym.Assert(re != nil && re != rd, "E is a different record")
			sym.Assert(verifFieldsEqual(rd.Fields, beforeD), "records parsed after C's release leave the live record D intact")
			if sym.Bool("releaseE") {
				alloc.Release(re)
			}
		}
	}
	sym.Reach("checked")
}

// VerifC12_ReleaseResets: an arbitrary dirty record released once per output
// is completely reset before it returns to the pool; one release fewer leaves
// it untouched.
//
//verif:reach reset kept
func VerifC12_ReleaseResets() {
	defer func(v int) { defs.InputLogMinRecordBytesToPool = v }(defs.InputLogMinRecordBytesToPool)
	defs.InputLogMinRecordBytesToPool = 50
	outputs := sym.Choice("outputs", 2) + 1
	p, alloc := verifParserFor(outputs)
	line := verifLine("a", verifLineA, 2)
	if sym.Bool("short") {
		line = verifLine("a", verifLineB, 2)
	}
	r := p.Parse(line, time.Unix(1600000000, 0))
	sym.Assert(r != nil, "parses")
	r.Unescaped = sym.Bool("unescaped")
	releases := sym.Choice("releases", outputs+1)
	for i := 0; i < releases; i++ {
		alloc.Release(r)
	}
	hasBuf, ref := r.VerifRecordState()
	if releases == outputs {
		for i := range r.Fields {
			sym.Assert(r.Fields[i] == "", "every field cleared")
		}
		sym.Assert(r.RawLength == 0 && r.Timestamp.IsZero() && !hasBuf && ref == 0, "length, timestamp, buffer and reference count reset")
		sym.Reach("reset")
	} else {
		sym.Assert(ref == outputs-releases && r.RawLength == len(line) && r.Fields[3] != "", "record with outstanding references is untouched")
		sym.Reach("kept")
	}
}

// VerifC09_ParsedRecordStaysFaithful: the fields of a parsed record still equal
// the substrings of its line after further lines have been parsed and released
// on the same allocator (the C12 aliasing scenario read as C09's faithfulness).
//
//verif:reach checked
//verif:paths 50000
//verif:thorough paths 300000
func VerifC09_ParsedRecordStaysFaithful() { VerifC12_LiveRecordsDoNotAlias() }

// VerifC09_FaithfulAfterAnyHistory: parsing after an arbitrary pool history gives the fields a fresh parser gives.
//
//verif:reach compared reused
//verif:paths 50000
func VerifC09_FaithfulAfterAnyHistory() { VerifC12_ReuseInvisible() }

// VerifC07_NeighboursNotCorrupted: a short or malformed record between large
// ones never corrupts the records that surround it (the C12 aliasing scenario read for C07).
//
//verif:reach checked
//verif:paths 50000
//verif:thorough paths 300000
func VerifC07_NeighboursNotCorrupted() { VerifC12_LiveRecordsDoNotAlias() }
