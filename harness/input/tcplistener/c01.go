package tcplistener

// The connection handler (runConnection) with the real multi-line reader and
// NetConnWrapper against a scripted connection (zz_verif/fakenet):
// C01 link L0 (everything read is handed over and flushed before the
// connection counts as ended), C08 (flush timing), C18 (stop closes the socket).

import (
	"sync"

	"github.com/relex/gotils/channels"
	"github.com/relex/gotils/logger"
	"github.com/relex/slog-agent/base"
	"github.com/relex/slog-agent/zz_verif/fakenet"
	"github.com/relex/slog-agent/zz_verif/sym"
)

type verifRecvSink struct {
	records       []string
	sinceFlush    int
	flushes       int
	closed        bool
	acceptedAfter bool
}

func (s *verifRecvSink) Accept(message []byte) {
	if s.closed {
		s.acceptedAfter = true
	}
	s.records = append(s.records, string(message))
	s.sinceFlush++
}
func (s *verifRecvSink) Flush() { s.flushes++; s.sinceFlush = 0 }
func (s *verifRecvSink) Close() {
	sym.Assert(s.sinceFlush == 0, "every record read from the connection has been flushed to the next stage before the sink is closed")
	s.closed = true
}

type verifRecvFactory struct{ sink *verifRecvSink }

func (f *verifRecvFactory) NewSink(addr string, n base.ClientNumber) base.MessageReceiverSink {
	return f.sink
}

// verifConnScenario: a stream of single-line records cut into fragments, with
// read timeouts (flush ticks) at symbolic places; the connection ends by EOF or
// by a stop request that arrives while the handler is blocked reading.
func verifConnScenario() {
	stream := []byte("<>a1\n<>b2\n<>c3\n")
	n := len(stream)
	c1 := sym.Choice("cut1", n+1)
	c2 := sym.Choice("cut2", n+1)
	sym.Assume(c1 <= c2)
	var script []fakenet.Event
	add := func(b []byte) {
		if len(b) > 0 {
			script = append(script, fakenet.Event{Data: append([]byte{}, b...)})
		}
	}
	add(stream[:c1])
	if sym.Bool("timeoutAfterFragment1") {
		script = append(script, fakenet.Event{Timeout: true})
	}
	add(stream[c1:c2])
	if sym.Bool("timeoutAfterFragment2") {
		script = append(script, fakenet.Event{Timeout: true})
	}
	add(stream[c2:])
	byEOF := sym.Bool("clientCloses")
	if byEOF {
		script = append(script, fakenet.Event{EOF: true})
	}
	stop := channels.NewSignalAwaitable()
	sink := &verifRecvSink{}
	l := &tcpLineListener{logger: logger.Root(), testRecord: verifToyStart, receiver: &verifRecvFactory{sink},
		stopRequest: stop, stopTimeout: channels.NewSignalAwaitable(), taskCounter: &sync.WaitGroup{}}
	conn := fakenet.NewConn(script)
	l.taskCounter.Add(1)
	go l.runConnection(logger.Root(), conn, 5)
	if !byEOF {
		sym.Yield() // the handler runs until it blocks in Read, then the stop request arrives
		stop.Signal()
	}
	l.taskCounter.Wait() // deadlock = the connection handler does not end
	sym.Assert(sink.closed && !sink.acceptedAfter, "the sink is closed last")
	_ = conn
	want := []string{"<>a1", "<>b2", "<>c3"}
	sym.Assert(len(sink.records) == len(want), "every record of the stream is delivered exactly once, whatever the cuts, flush ticks and the way the connection ends")
	for i := range want {
		if i < len(sink.records) {
			sym.Assert(sink.records[i] == want[i], "records are delivered complete and in order")
		}
	}
	if byEOF {
		sym.Reach("client-closed")
	} else {
		sym.Reach("stopped")
	}
}

// VerifC01_ConnectionFlushesBeforeEnd: link L0 of the custody chain.
//
//verif:native off
//verif:preempt 0
//verif:delays 1
//verif:clock virtual
//verif:reach client-closed stopped
//verif:paths 100000
func VerifC01_ConnectionFlushesBeforeEnd() { verifConnScenario() }

// VerifC08_ConnectionFlushTiming: periodic flushes driven by read timeouts do not change the records.
//
//verif:native off
//verif:preempt 0
//verif:delays 1
//verif:clock virtual
//verif:reach client-closed stopped
//verif:paths 100000
func VerifC08_ConnectionFlushTiming() { verifConnScenario() }

// VerifC18_ConnectionStops: a stop request ends a connection handler that is blocked reading.
//
//verif:native off
//verif:preempt 0
//verif:delays 1
//verif:clock virtual
//verif:reach client-closed stopped
//verif:paths 100000
func VerifC18_ConnectionStops() { verifConnScenario() }
