package tcplistener

// The connection handler (runConnection) with the real multi-line reader and
// NetConnWrapper against a scripted connection (zz_verif/fakenet):
// C01 link L0 (everything read is handed over and flushed before the
// connection counts as ended), C08 (flush timing), C18 (stop closes the socket).

import (
	"net"
	"sync"
	"time"

	"github.com/relex/gotils/channels"
	"github.com/relex/gotils/logger"
	"github.com/relex/slog-agent/base"
	"github.com/relex/slog-agent/defs"
	"github.com/relex/slog-agent/zz_verif/fakenet"
	"github.com/relex/slog-agent/zz_verif/sym"
)

type verifRecvSink struct {
	records       []string
	sinceFlush    int
	flushes       int
	closed        bool
	acceptedAfter bool
	conn          *net.TCPConn
	flushAfter    []int // number of Read calls made when each Flush happened
	flushAt       []int // virtual time of each Flush
}

func (s *verifRecvSink) Accept(message []byte) {
	if s.closed {
		s.acceptedAfter = true
	}
	s.records = append(s.records, string(message))
	s.sinceFlush++
}
func (s *verifRecvSink) Flush() {
	s.flushes++
	s.sinceFlush = 0
	if s.conn != nil {
		s.flushAfter = append(s.flushAfter, fakenet.Reads(s.conn))
		s.flushAt = append(s.flushAt, sym.VirtualNow())
	}
}
func (s *verifRecvSink) Close() {
	sym.Assert(s.sinceFlush == 0, "every record read from the connection has been flushed to the next stage before the sink is closed")
	s.closed = true
}

type verifRecvFactory struct{ sink *verifRecvSink }

func (f *verifRecvFactory) NewSink(addr string, n base.ClientNumber) base.MessageReceiverSink {
	return f.sink
}

// verifConnScenario: a stream of single-line records cut into fragments, with
// read timeouts (flush ticks) at symbolic places; the connection ends by EOF or
// by a stop request that arrives while the handler is blocked reading.
func verifConnScenario() {
	stream := []byte("<>a1\n<>b2\n<>c3\n")
	n := len(stream)
	c1 := sym.Choice("cut1", n+1)
	c2 := sym.Choice("cut2", n+1)
	sym.Assume(c1 <= c2)
	var script []fakenet.Event
	add := func(b []byte) {
		if len(b) > 0 {
			script = append(script, fakenet.Event{Data: append([]byte{}, b...)})
		}
	}
	add(stream[:c1])
	if sym.Bool("timeoutAfterFragment1") {
		script = append(script, fakenet.Event{Timeout: true})
	}
	add(stream[c1:c2])
	if sym.Bool("timeoutAfterFragment2") {
		script = append(script, fakenet.Event{Timeout: true})
	}
	add(stream[c2:])
	byEOF := sym.Bool("clientCloses")
	if byEOF {
		script = append(script, fakenet.Event{EOF: true})
	}
	stop := channels.NewSignalAwaitable()
	sink := &verifRecvSink{}
	l := &tcpLineListener{logger: logger.Root(), testRecord: verifToyStart, receiver: &verifRecvFactory{sink},
		stopRequest: stop, stopTimeout: channels.NewSignalAwaitable(), taskCounter: &sync.WaitGroup{}}
	conn := fakenet.NewConn(script)
	l.taskCounter.Add(1)
	go l.runConnection(logger.Root(), conn, 5)
	if !byEOF {
		// the stop request arrives once the client has nothing more to send and the handler is blocked in Read
		for !fakenet.Drained(conn) {
			time.Sleep(100 * time.Millisecond)
		}
		sym.Yield()
		stop.Signal()
	}
	l.taskCounter.Wait() // deadlock = the connection handler does not end
	sym.Assert(sink.closed && !sink.acceptedAfter, "the sink is closed last")
	_ = conn
	want := []string{"<>a1", "<>b2", "<>c3"}
	sym.Assert(len(sink.records) == len(want), "every record of the stream is delivered exactly once, whatever the cuts, flush ticks and the way the connection ends")
	for i := range want {
		if i < len(sink.records) {
			sym.Assert(sink.records[i] == want[i], "records are delivered complete and in order")
		}
	}
	if byEOF {
		sym.Reach("client-closed")
	} else {
		sym.Reach("stopped")
	}
}

// VerifC01_ConnectionFlushesBeforeEnd: link L0 of the custody chain.
//
//verif:native off
//verif:preempt 1
//verif:delays 1
//verif:clock virtual
//verif:reach client-closed stopped
//verif:paths 100000
func VerifC01_ConnectionFlushesBeforeEnd() { verifConnScenario() }

// VerifC08_ConnectionFlushTiming: periodic flushes driven by read timeouts do not change the records.
//
//verif:native off
//verif:preempt 0
//verif:delays 1
//verif:clock virtual
//verif:reach client-closed stopped
//verif:paths 100000
func VerifC08_ConnectionFlushTiming() { verifConnScenario() }

// VerifC18_ConnectionStops: a stop request ends a connection handler that is blocked reading.
//
//verif:native off
//verif:preempt 1
//verif:delays 1
//verif:clock virtual
//verif:reach client-closed stopped
//verif:paths 100000
func VerifC18_ConnectionStops() { verifConnScenario() }

// VerifC08_ConnectionMultiLine: a multi-line record whose lines arrive in two
// reads, between single-line records, with symbolic pauses (none, 10 ms, or 1.5 flush
// intervals of virtual time) before each fragment: (a) the handler flushes
// only after a read that timed out or that renewed the read deadline (the
// periodic tick) - never between two reads that no tick separates; (b) when no
// tick falls between the two fragments the continuation line stays attached.
//
//verif:native off
//verif:preempt 0
//verif:delays 0
//verif:clock virtual
//verif:reach whole ticked
//verif:paths 100000
func VerifC08_ConnectionMultiLine() {
	multi := []byte("<>m1\n c\n")
	cut := 1 + sym.Choice("cut", len(multi)-1)
	pause := func(name string) time.Duration {
		// no pause, a pause far below the flush interval (back-to-back segments), a pause of 1.5 flush intervals
		return []time.Duration{0, 10 * time.Millisecond, 750 * time.Millisecond}[sym.Choice(name, 3)]
	}
	script := []fakenet.Event{
		{Data: []byte("<>a1\n")},
		{Data: []byte("<>z9\n"), Delay: pause("pauseBeforeZ")},
		{Data: append([]byte{}, multi[:cut]...), Delay: pause("pauseBeforeFragment1")},
		{Data: append([]byte{}, multi[cut:]...), Delay: pause("pauseBeforeFragment2")},
		{Data: []byte("<>e5\n")},
		{EOF: true},
	}
	stop := channels.NewSignalAwaitable()
	conn := fakenet.NewConn(script)
	sink := &verifRecvSink{conn: conn}
	l := &tcpLineListener{logger: logger.Root(), testRecord: verifToyStart, receiver: &verifRecvFactory{sink},
		stopRequest: stop, stopTimeout: channels.NewSignalAwaitable(), taskCounter: &sync.WaitGroup{}}
	l.taskCounter.Add(1)
	go l.runConnection(logger.Root(), conn, 5)
	l.taskCounter.Wait()
	log := fakenet.ReadLog(conn)
	sym.Assert(len(log) == len(script), "one read per scripted event")
	// the tick is periodic: the connection's read deadline is renewed only when less than one flush interval of it
	// is left, so two renewals are more than one flush interval apart however closely the segments follow each other
	lastRenewal := int64(-1)
	for _, r := range log {
		if r.Renewed {
			if lastRenewal >= 0 {
				sym.Assert(r.At-lastRenewal >= int64(defs.InputFlushInterval), "the read deadline (the flush tick) is renewed at most once per flush interval: segments arriving back to back are not flushed apart")
			}
			lastRenewal = r.At
		}
	}
	tickBetweenFragments := false
	for _, after := range sink.flushAfter {
		if after >= len(script) {
			continue // the final flush at the end of the connection
		}
		last := log[after-1]
		sym.Assert(last.Timeout || last.Renewed, "a flush happens only after a read that timed out or renewed the read deadline (the periodic tick)")
		if after == 3 {
			tickBetweenFragments = true
		}
	}
	if !tickBetweenFragments {
		found := false
		for _, r := range sink.records {
			if r == "<>m1\n c" {
				found = true
			}
		}
		sym.Assert(found, "continuation lines stay attached to their record when no flush tick separates the reads")
		sym.Assert(len(sink.records) == 4, "every record is delivered once")
		sym.Reach("whole")
	} else {
		sym.Reach("ticked")
	}
	sym.Assert(len(sink.records) >= 3 && sink.records[0] == "<>a1" && sink.records[1] == "<>z9" && sink.records[len(sink.records)-1] == "<>e5",
		"the single-line records around it are delivered complete and in order")
}
