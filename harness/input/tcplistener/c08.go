package tcplistener

// C08 — record framing does not depend on how the stream is cut into reads.
// C07 — (framing stage) the reader never panics, whatever the bytes, the cuts,
//       the flush points and the answers of the record tester.

import (
	"io"
	"strings"

	"github.com/relex/slog-agent/zz_verif/sym"
)

// verifToyStart is a first-line-determined record tester: a record starts with "<>".
func verifToyStart(s []byte) bool { return len(s) >= 2 && s[0] == '<' && s[1] == '>' }

type verifFeed struct {
	frags [][]byte
	next  int
}

func (f *verifFeed) read(p []byte) (int, error) {
	if f.next >= len(f.frags) {
		return 0, io.EOF
	}
	n := copy(p, f.frags[f.next])
	if n < len(f.frags[f.next]) {
		f.frags[f.next] = f.frags[f.next][n:]
	} else {
		f.next++
	}
	return n, nil
}

// verifRun feeds the fragments (with an optional Flush after each) and returns the records consumed.
func verifRun(frags [][]byte, flushAfter []bool, bufSize, softLimit int, test headTester) []string {
	var log []string
	feed := &verifFeed{frags: frags}
	mlr := newMultiLineReader(feed.read, test, bufSize, softLimit, func(s []byte) { log = append(log, string(s)) })
	for i := 0; i < 2*len(frags)+2; i++ {
		k := feed.next
		if err := mlr.Read(); err != nil {
			break
		}
		if flushAfter != nil && k < len(flushAfter) && flushAfter[k] && feed.next > k {
			mlr.Flush()
		}
	}
	mlr.FlushAll()
	return log
}

// verifStream: n symbolic bytes ending in '\n'; the newline pattern is case-split.
func verifStream(n int) []byte {
	s := sym.Bytes("stream", n, n)
	for i := 0; i < n-1; i++ {
		sym.ConcretizeBool(s[i] == '\n')
	}
	sym.Assume(s[n-1] == '\n')
	return s
}

func verifSameLog(a, b []string, what string) {
	sym.Assert(len(a) == len(b), what+": same number of records")
	for i := 0; i < len(a) && i < len(b); i++ {
		sym.Assert(a[i] == b[i], what+": same records in the same order")
	}
}

// verifRefFrame is the line-based reference framer.
func verifRefFrame(s []byte) []string {
	var recs []string
	var cur []byte
	have := false
	start := 0
	for i := 0; i < len(s); i++ {
		if s[i] != '\n' {
			continue
		}
		line := s[start:i]
		start = i + 1
		if len(line) > 0 && verifToyStart(line) {
			if have {
				recs = append(recs, string(cur))
			}
			cur, have = append([]byte{}, line...), true
		} else if have {
			cur = append(append(cur, '\n'), line...)
		}
	}
	if have {
		recs = append(recs, string(cur))
	}
	return recs
}

func verifFilter(log []string) []string {
	var out []string
	for _, r := range log {
		if verifToyStart([]byte(r)) {
			out = append(out, r)
		}
	}
	return out
}

// VerifC08_Fragmentation: any newline-terminated stream, any two cuts, no flush:
// the same records, each once, in order, as reading the stream in one piece;
// and the records that pass the tester are those of the line-based reference.
//
//verif:reach compared multi-record continuation
//verif:paths 200000
func VerifC08_Fragmentation() {
	n := 6
	if sym.Tier() > 0 {
		n = 8
	}
	n = sym.Choice("streamLen", n) + 1
	s := verifStream(n)
	c1 := sym.Choice("cut1", n+1)
	c2 := sym.Choice("cut2", n+1)
	sym.Assume(c1 <= c2)
	whole := verifRun([][]byte{append([]byte{}, s...)}, nil, 32, 10, verifToyStart)
	split := verifRun([][]byte{append([]byte{}, s[:c1]...), append([]byte{}, s[c1:c2]...), append([]byte{}, s[c2:]...)}, nil, 32, 10, verifToyStart)
	verifSameLog(whole, split, "fragmented vs whole")
	verifSameLog(verifFilter(whole), verifRefFrame(s), "whole vs reference framer")
	if len(whole) >= 2 {
		sym.Reach("multi-record")
	}
	for _, r := range whole {
		for i := 0; i < len(r); i++ {
			if r[i] == '\n' {
				sym.Reach("continuation")
			}
		}
	}
	sym.Reach("compared")
}

// VerifC08_FragmentationProductionShape: the buffer shape the listener uses
// (four times the record limit; here 32 / 8) and a multi-line record between two
// and three times the limit (19 bytes), followed by a further record, the
// whole stream leaving room for one more record of the limit: every pair of
// cuts gives the records of the uncut stream (forced emission of over-long
// records must not start while there is still room for a whole record). The
// line structure is fixed, four payload bytes are symbolic.
//
//verif:reach compared
//verif:paths 100000
func VerifC08_FragmentationProductionShape() {
	x := sym.Bytes("payload", 4, 4)
	for i := range x {
		sym.Assume(x[i] != '\n')
	}
	var s []byte
	s = append(s, '<', '>', x[0], '.', '.', '.', '.', '.', '\n') // line 1: 8 bytes
	s = append(s, ' ', x[1], '.', '.', '.', '.', '.', '\n')      // line 2: 7 bytes (record so far 16)
	s = append(s, ' ', x[2], '\n')                               // line 3: 2 bytes (record 19)
	s = append(s, '<', '>', x[3], '\n')                          // next record; 24 bytes in all
	n := len(s)
	c1 := sym.Choice("cut1", n+1)
	c2 := sym.Choice("cut2", n+1)
	sym.Assume(c1 <= c2)
	whole := verifRun([][]byte{append([]byte{}, s...)}, nil, 32, 8, verifToyStart)
	split := verifRun([][]byte{append([]byte{}, s[:c1]...), append([]byte{}, s[c1:c2]...), append([]byte{}, s[c2:]...)}, nil, 32, 8, verifToyStart)
	sym.Observe("whole", strings.Join(whole, "|"))
	sym.Observe("split", strings.Join(split, "|"))
	verifSameLog(whole, split, "production shape, fragmented vs whole")
	verifSameLog(verifFilter(whole), verifRefFrame(s), "production shape, whole vs reference framer")
	sym.Reach("compared")
}

// VerifC08_SingleLineWithFlush: streams in which every line is a record start:
// any cuts and any placement of periodic flushes give the same records.
//
//verif:reach compared flushed
//verif:paths 200000
func VerifC08_SingleLineWithFlush() {
	n := 7
	if sym.Tier() > 0 {
		n = 9
	}
	n = sym.Choice("streamLen", n-2) + 3
	s := verifStream(n)
	// every line starts a record
	start := 0
	for i := 0; i < n; i++ {
		if s[i] == '\n' {
			sym.Assume(i-start >= 2 && s[start] == '<' && s[start+1] == '>')
			start = i + 1
		}
	}
	c1 := sym.Choice("cut1", n+1)
	c2 := sym.Choice("cut2", n+1)
	sym.Assume(c1 <= c2)
	flush := []bool{sym.Bool("flush1"), sym.Bool("flush2"), sym.Bool("flush3")}
	for i := range flush {
		flush[i] = sym.ConcretizeBool(flush[i])
	}
	whole := verifRun([][]byte{append([]byte{}, s...)}, nil, 32, 10, verifToyStart)
	split := verifRun([][]byte{append([]byte{}, s[:c1]...), append([]byte{}, s[c1:c2]...), append([]byte{}, s[c2:]...)}, flush, 32, 10, verifToyStart)
	verifSameLog(whole, split, "fragmented+flushed vs whole")
	verifSameLog(whole, verifRefFrame(s), "whole vs reference framer")
	if flush[0] || flush[1] {
		sym.Reach("flushed")
	}
	sym.Reach("compared")
}

// VerifC08_LeadingNoiseWithFlush: a first line that is not a record (client
// banner, blank line) followed by single-line records: whatever the cuts and
// flushes, the valid records delivered are the same.
//
//verif:reach compared flushed
//verif:paths 200000
func VerifC08_LeadingNoiseWithFlush() {
	n := 8
	if sym.Tier() > 0 {
		n = 10
	}
	n = sym.Choice("streamLen", n-3) + 4
	s := verifStream(n)
	start, line := 0, 0
	for i := 0; i < n; i++ {
		if s[i] == '\n' {
			if line == 0 {
				sym.Assume(!(i-start >= 2 && s[start] == '<' && s[start+1] == '>'))
			} else {
				sym.Assume(i-start >= 2 && s[start] == '<' && s[start+1] == '>')
			}
			start = i + 1
			line++
		}
	}
	sym.Assume(line >= 2)
	c1 := sym.Choice("cut1", n+1)
	c2 := sym.Choice("cut2", n+1)
	sym.Assume(c1 <= c2)
	flush := []bool{sym.ConcretizeBool(sym.Bool("flush1")), sym.ConcretizeBool(sym.Bool("flush2")), false}
	whole := verifRun([][]byte{append([]byte{}, s...)}, nil, 32, 10, verifToyStart)
	split := verifRun([][]byte{append([]byte{}, s[:c1]...), append([]byte{}, s[c1:c2]...), append([]byte{}, s[c2:]...)}, flush, 32, 10, verifToyStart)
	verifSameLog(verifFilter(whole), verifFilter(split), "valid records, fragmented+flushed vs whole")
	verifSameLog(verifFilter(whole), verifRefFrame(s), "valid records vs reference framer")
	if flush[0] || flush[1] {
		sym.Reach("flushed")
	}
	sym.Reach("compared")
}

// VerifC07_ReaderAnyBytes: small buffer (9, soft limit 3) so that the overflow
// logic runs; arbitrary bytes, cuts and flushes, and an arbitrary tester (a
// fresh boolean per call): no panic.
//
//verif:reach overflowed done
//verif:paths 200000
func VerifC07_ReaderAnyBytes() {
	n := 6
	if sym.Tier() > 0 {
		n = 9
	}
	n = sym.Choice("streamLen", n+1)
	s := sym.Bytes("stream", n, n)
	for i := 0; i < n; i++ {
		sym.ConcretizeBool(s[i] == '\n')
	}
	c1 := sym.Choice("cut1", n+1)
	flush := sym.Choice("flush", 2) == 1
	consumed := 0
	feed := &verifFeed{frags: [][]byte{append([]byte{}, s[:c1]...), append([]byte{}, s[c1:]...)}}
	mlr := newMultiLineReader(feed.read, func(b []byte) bool { return sym.Bool("isStart") }, 9, 3,
		func(b []byte) { consumed += len(b) })
	for i := 0; i < 6; i++ {
		if err := mlr.Read(); err != nil {
			break
		}
		if mlr.offsetAppend == 0 && mlr.offsetSearch == 0 && i > 0 {
			sym.Reach("overflowed")
		}
		sym.Assert(mlr.offsetAppend >= 0 && mlr.offsetAppend < len(mlr.buffer), "buffer always has room for the next read")
		sym.Assert(mlr.offsetSearch >= 0 && mlr.offsetSearch <= mlr.offsetAppend, "search offset inside the buffered data")
		if flush {
			mlr.Flush()
		}
	}
	mlr.FlushAll()
	sym.Assert(consumed <= n, "no byte is consumed twice")
	sym.Reach("done")
}
