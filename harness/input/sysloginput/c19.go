package sysloginput

// C19 / C09 — a record dropped by an extraction transform inside the composite parser.

import (
	"time"

	"github.com/relex/gotils/logger"
	"github.com/relex/slog-agent/base"
	"github.com/relex/slog-agent/base/bconfig"
	"github.com/relex/slog-agent/base/bmatch"
	"github.com/relex/slog-agent/input/syslogprotocol"
	"github.com/relex/slog-agent/transform/taddfields"
	"github.com/relex/slog-agent/transform/tdrop"
	"github.com/relex/slog-agent/transform/tif"
	"github.com/relex/slog-agent/zz_verif/fakes"
	"github.com/relex/slog-agent/zz_verif/sym"
)

// verifExtractionDrop drives the parser of the syslog input as its exported
// constructor builds it (Config.NewParser: syslog parser + extraction
// transforms), with one extraction step that drops records whose app name
// starts with 'X'; the first byte of the app name is symbolic.
func verifExtractionDrop(attribution bool) {
	schema := syslogprotocol.RFC5424Schema
	m := fakes.NewMetrics()
	cnt := base.NewLogInputCounter(m)
	alloc := base.NewLogAllocator(schema, 1)
	cfg := &Config{
		LevelMapping: []string{"off", "fatal", "crit", "error", "warn", "notice", "info", "debug"},
		Extractions: []bconfig.LogTransformConfigHolder{
			{Value: &tdrop.Config{Match: bmatch.VerifMatch("app", "!!str-start", "X"), Percentage: 100, MetricLabel: "xdrop"}},
		},
	}
	cp, err := cfg.NewParser(logger.Root(), alloc, schema, cnt)
	sym.Assert(err == nil, "parser with one extraction step is created")
	line := []byte("<13>1 2019-08-15T15:50:46Z host Xapp 11 src - message")
	line[32] = sym.Byte("appFirst")
	sym.Assume(line[32] != ' ')
	rec := cp.Parse(line, time.Unix(1600000000, 0))
	cnt.UpdateMetrics()
	passed, dropped := m.CounterValue("passed_records_total"), m.CounterValue("dropped_records_total")
	bytes := m.CounterValue("passed_record_bytes_total") + m.CounterValue("dropped_record_bytes_total")
	sym.Assert(passed+dropped == 1, "the message is counted exactly once")
	sym.Assert(int(bytes) == len(line), "the message is counted with its byte length, once")
	if rec != nil {
		sym.Assert(line[32] != 'X', "a record matching the extraction drop is not handed on")
		sym.Assert(passed == 1, "a record handed on is counted as passed")
		sym.Reach("passed")
	} else {
		sym.Assert(line[32] == 'X', "only a record matching the extraction drop is withheld")
		sym.Reach("dropped-by-extraction")
		if attribution {
			sym.Assert(passed == 0 && dropped == 1, "a record dropped by an extraction step is counted as dropped, not as passed [extraction drop]")
		}
	}
}

// VerifC19_ExtractionDropCounted: input passed + dropped = messages received,
// and every message counted as passed is handed to the pipelines (so that
// pipeline passed + dropped = input passed can hold).
//
//verif:reach passed dropped-by-extraction
func VerifC19_ExtractionDropCounted() { verifExtractionDrop(true) }

// VerifC09_ExtractionDropCountedOnce: every message handed to the input's
// parser - the syslog parser followed by the extraction steps - is counted
// exactly once with its byte length, also when an extraction step drops it
// after the syslog parser has counted it.
//
//verif:reach passed dropped-by-extraction
func VerifC09_ExtractionDropCountedOnce() { verifExtractionDrop(false) }

// VerifC12_DroppedRecordLeavesNothingBehind: a record dropped by an extraction
// step inside the input (after an earlier extraction step has filled an
// optional field) goes back to the pool; the next record parsed by the same
// connection - which may reuse the pooled object (sym.PoolNondet: a new object
// or any object put back) - carries only its own values: its optional field is
// empty, its header fields are its own, whatever the dropped record held. The
// app names (first byte) and which record matches the drop are symbolic.
//
//verif:reach reused-after-drop nothing-dropped
func VerifC12_DroppedRecordLeavesNothingBehind() {
	sym.PoolNondet(true)
	defer sym.PoolNondet(false)
	schema := base.MustNewLogSchema([]string{"facility", "level", "time", "host", "app", "pid", "source", "extradata", "log", "class"})
	m := fakes.NewMetrics()
	cnt := base.NewLogInputCounter(m)
	outputs := 1 + sym.Choice("outputs", 2)
	alloc := base.NewLogAllocator(schema, outputs)
	cfg := &Config{
		LevelMapping: []string{"off", "fatal", "crit", "error", "warn", "notice", "info", "debug"},
		Extractions: []bconfig.LogTransformConfigHolder{
			{Value: &tif.Config{Match: bmatch.VerifMatch("app", "!!str-start", "X"), Then: []bconfig.LogTransformConfigHolder{
				{Value: &taddfields.Config{Fields: map[string]string{"class": "c-$app"}}},
			}}},
			{Value: &tdrop.Config{Match: bmatch.VerifMatch("app", "!!str-start", "X"), Percentage: 100, MetricLabel: "xdrop"}},
		},
	}
	cp, err := cfg.NewParser(logger.Root(), alloc, schema, cnt)
	sym.Assert(err == nil, "parser with extraction steps is created")
	line1 := []byte("<13>1 2019-08-15T15:50:46Z host1 Xapp 11 src1 - first message")
	line1[33] = sym.Byte("app1First")
	sym.Assume(line1[33] != ' ')
	line2 := []byte("<14>1 2020-01-02T03:04:05Z host2 Yapp 22 src2 - second")
	line2[33] = sym.Byte("app2First")
	sym.Assume(line2[33] != ' ' && line2[33] != 'X')
	rec1 := cp.Parse(line1, time.Unix(1600000000, 0))
	rec2 := cp.Parse(line2, time.Unix(1600000001, 0))
	sym.Assert(rec2 != nil, "the second record is not dropped")
	if rec2 == nil {
		return
	}
	sym.Assert(rec2.Fields[9] == "", "a record that sets no class has none, whatever an earlier dropped record held")
	sym.Assert(rec2.Fields[3] == "host2" && rec2.Fields[5] == "22" && rec2.Fields[6] == "src2" && rec2.Fields[8] == "second", "the record carries its own header fields and message")
	sym.Assert(rec2.Fields[4] == string(line2[33:37]), "the record carries its own app name")
	if rec1 == nil {
		sym.Reach("reused-after-drop")
	} else {
		sym.Assert(rec1.Fields[9] == "", "an undropped first record has no class either")
		sym.Reach("nothing-dropped")
	}
}
