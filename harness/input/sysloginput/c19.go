package sysloginput

// C19 — a record dropped by an extraction transform inside the composite parser.

import (
	"time"

	"github.com/relex/gotils/logger"
	"github.com/relex/slog-agent/base"
	"github.com/relex/slog-agent/input/syslogparser"
	"github.com/relex/slog-agent/input/syslogprotocol"
	"github.com/relex/slog-agent/zz_verif/fakes"
	"github.com/relex/slog-agent/zz_verif/sym"
)

// VerifC19_ExtractionDropCounted: input passed + dropped = messages received,
// and every message counted as passed is handed to the pipelines (so that
// pipeline passed + dropped = input passed can hold).
//
//verif:reach passed dropped-by-extraction
func VerifC19_ExtractionDropCounted() {
	schema := syslogprotocol.RFC5424Schema
	m := fakes.NewMetrics()
	cnt := base.NewLogInputCounter(m)
	alloc := base.NewLogAllocator(schema, 1)
	p, err := syslogparser.NewParser(logger.Root(), alloc, schema, nil, cnt)
	sym.Assume(err == nil)
	dropApp := sym.Byte("droppedApp")
	cp := newCompositeParser(p, []base.LogTransformFunc{func(r *base.LogRecord) base.FilterResult {
		if len(r.Fields[4]) > 0 && r.Fields[4][0] == dropApp {
			return base.DROP
		}
		return base.PASS
	}}, alloc)
	line := []byte("<13>1 2019-08-15T15:50:46Z host Xapp 11 src - message")
	line[32] = sym.Byte("appFirst")
	sym.Assume(line[32] != ' ')
	rec := cp.Parse(line, time.Unix(1600000000, 0))
	cnt.UpdateMetrics()
	passed, dropped := m.CounterValue("passed_records_total"), m.CounterValue("dropped_records_total")
	sym.Assert(passed+dropped == 1, "the message is counted exactly once")
	if rec != nil {
		sym.Assert(passed == 1, "a record handed on is counted as passed")
		sym.Reach("passed")
	} else {
		sym.Reach("dropped-by-extraction")
		sym.Assert(passed == 0 && dropped == 1, "a record dropped by an extraction step is counted as dropped, not as passed [extraction drop]")
	}
}
