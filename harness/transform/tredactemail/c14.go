package tredactemail

// C14 — e-mail redaction is complete and touches nothing else.
//
// Oracles: (a) a detector written from the property's wording finds no
// supported address in the output; (b) text with no '@' between two word
// characters is returned unchanged; (c) the implementation agrees with a short
// reference redactor (left to right, greedy); (d) the counter moves iff the
// text changed. Every byte of the text is symbolic (all 256 values); the length
// is case-split.

import (
	"github.com/relex/gotils/logger"
	"github.com/relex/slog-agent/base"
	"github.com/relex/slog-agent/zz_verif/sym"
)

type verifCounter struct{ n, bytes int }

func (c *verifCounter) RegisterCustomCounter(label string) func(int) {
	return func(l int) { c.n++; c.bytes += l }
}

func verifWord(c byte) bool {
	return (c >= 'A' && c <= 'Z') || (c >= 'a' && c <= 'z') || (c >= '0' && c <= '9')
}

func verifAddr(c byte) bool { return verifWord(c) || c == '.' || c == '-' || c == '_' }

// verifNumeric: "purely numeric" domain = digits and dots only.
func verifNumeric(s string) bool {
	for i := 0; i < len(s); i++ {
		if !((s[i] >= '0' && s[i] <= '9') || s[i] == '.') {
			return false
		}
	}
	return len(s) > 0
}

// verifDomainEnd returns the end of the domain starting after the '@' at index
// at, or -1 when what follows is not a domain of the supported shape.
func verifDomainEnd(s string, at int) int {
	j := at + 1
	for j < len(s) && s[j] != '.' {
		if !verifAddr(s[j]) {
			return -1
		}
		j++
	}
	if j == len(s) { // cut by the end of the text before any dot
		if verifNumeric(s[at+1:]) {
			return -1
		}
		return len(s)
	}
	if j == len(s)-1 {
		return len(s)
	}
	if !verifWord(s[j+1]) {
		return -1
	}
	e := j + 2
	for e < len(s) && verifAddr(s[e]) {
		e++
	}
	if verifNumeric(s[at+1 : e]) {
		return -1
	}
	return e
}

const verifMark = "REDACTED"

// verifHasAddress is the detector: does s contain an address of the supported
// shape? When masked is set (scanning an output), an '@' directly adjacent to an
// inserted REDACTED marker is ignored: the marker is not original text.
func verifHasAddress(s string, masked bool) bool {
	for i := 1; i+1 < len(s); i++ {
		if s[i] != '@' || !verifWord(s[i-1]) || !verifWord(s[i+1]) {
			continue
		}
		if masked && ((i >= len(verifMark) && s[i-len(verifMark):i] == verifMark) ||
			(i+1+len(verifMark) <= len(s) && s[i+1:i+1+len(verifMark)] == verifMark)) {
			continue
		}
		st := i
		for st > 0 && verifAddr(s[st-1]) {
			st--
		}
		if st > 0 && s[st-1] == '/' {
			continue
		}
		if verifDomainEnd(s, i) >= 0 {
			return true
		}
	}
	return false
}

// verifRefRedact is the reference redactor.
func verifRefRedact(s string) (string, int) {
	var out []byte
	copied, n := 0, 0
	i := 0
	for i < len(s) {
		if s[i] != '@' || i == 0 || i >= len(s)-1 || !verifWord(s[i-1]) || !verifWord(s[i+1]) {
			i++
			continue
		}
		st := i
		for st > copied && verifAddr(s[st-1]) {
			st--
		}
		if st > 0 && s[st-1] == '/' {
			i++
			continue
		}
		end := verifDomainEnd(s, i)
		if end < 0 {
			i++
			continue
		}
		out = append(append(out, s[copied:st]...), "REDACTED"...)
		copied, i = end, end
		n++
	}
	return string(append(out, s[copied:]...)), n
}

func verifCandidate(s string) bool {
	for i := 1; i+1 < len(s); i++ {
		if s[i] == '@' && verifWord(s[i-1]) && verifWord(s[i+1]) {
			return true
		}
	}
	return false
}

func verifRedactCheck(n int) {
	verifRedactCheckText(sym.String("text", n, n))
}

func verifRedactCheckText(text string) {
	schema := base.MustNewLogSchema([]string{"msg"})
	cnt := &verifCounter{}
	cfg := &Config{Key: "msg", MetricLabel: "redacted"}
	tf := cfg.NewTransform(schema, logger.Root(), cnt)
	rec := schema.NewTestRecord1(base.LogFields{text})
	rec.RawLength = 55
	res := tf.Transform(rec)
	out := rec.Fields[0]
	sym.Assert(res == base.PASS, "redaction never drops")
	sym.Assert(!verifHasAddress(out, true), "no supported address remains")
	if !verifCandidate(text) {
		sym.Assert(out == text, "text without a candidate '@' is unchanged")
	}
	ref, nref := verifRefRedact(text)
	sym.Assert(out == ref, "agrees with the reference redactor")
	sym.Assert((cnt.n == 1) == (nref > 0) && cnt.n <= 1, "counter moves iff something was redacted")
	if cnt.n == 1 {
		sym.Assert(cnt.bytes == 55, "counted with the record length")
		sym.Reach("redacted")
	} else {
		sym.Reach("unchanged")
	}
	sym.Observe("out", out)
}

// VerifC14_AllBytes: every text of the given length over all 256 byte values.
//
//verif:reach redacted unchanged
//verif:unwind 40
//verif:paths 200000
func VerifC14_AllBytes() {
	max := 5
	if sym.Tier() > 0 {
		max = 7
	}
	verifRedactCheck(sym.Choice("len", max+1))
}

// VerifC14_LongerDomains: addresses with several domain labels need more bytes
// than the all-bytes harness reaches: "x@" followed by 7 bytes over the
// alphabet that matters to the domain scan (a letter, a digit, '.', '-', '_',
// '@', space) - every text of that shape, e.g. x@a.b-c.d, x@1.2-a.b, x@a..b-c.
//
//verif:reach redacted unchanged
//verif:unwind 40
//verif:paths 400000
func VerifC14_LongerDomains() {
	n := 5 + 2*sym.Tier()
	tail := sym.Bytes("domain", n, n)
	for i := range tail {
		c := tail[i]
		sym.Assume(c == 'a' || c == '1' || c == '.' || c == '-' || c == '_' || c == '@' || c == ' ')
	}
	verifRedactCheckText("x@" + string(tail))
}

// VerifC14_LongLabels: domain labels and local parts far longer than the
// all-bytes bounds reach - lengths on both sides of the DNS limits a scanner
// might be tempted to build in (63-byte label, 253/255-byte name) and a few in
// between: "<local>@<label><tail>" with the first and last byte of the long
// part symbolic over the alphabet that matters (letter, digit, '-', '.'), the
// rest a fixed letter, and every tail shape (end of text, ".c", ".co more",
// " more", "@x.y"): the result equals the reference redactor's - a long token
// after '@' is redacted up to its own end and nothing behind it is swallowed.
//
//verif:reach redacted unchanged
//verif:unwind 600
//verif:paths 100000
func VerifC14_LongLabels() {
	lens := []int{2, 62, 63, 64, 65, 130}
	if sym.Tier() > 0 {
		lens = []int{2, 31, 62, 63, 64, 65, 66, 127, 128, 129, 252, 253, 254, 255, 256, 300}
	}
	n := lens[sym.Choice("longPartLen", len(lens))]
	long := make([]byte, n)
	for i := range long {
		long[i] = 'h'
	}
	edge := func(name string) byte {
		c := sym.Byte(name)
		sym.Assume(c == 'a' || c == '7' || c == '-' || c == '.')
		return c
	}
	long[0], long[n-1] = edge("firstByte"), edge("lastByte")
	tail := []string{"", ".c", ".co more bob@ex.org", " more", "@x.y"}[sym.Choice("tail", 5)]
	if sym.Bool("longLocalPart") {
		verifRedactCheckText("see " + string(long) + "@ex.com" + tail)
	} else {
		verifRedactCheckText("key k@" + string(long) + tail)
	}
}
