package textractspecial

// C15 — extractHead / extractTail at the transform level (what is done with the extractor's result).

import (
	"github.com/relex/gotils/logger"
	"github.com/relex/slog-agent/base"
	"github.com/relex/slog-agent/zz_verif/sym"
)

// VerifC15_ExtractTransformApplies: the extractHead / extractTail transform on
// every text of up to 5 bytes, with a destination field that already holds a
// value: whenever the pattern's boundaries match - around an empty or blank
// label too - the boundaries and the label are cut from the source field and
// the destination field is overwritten with the (trimmed, possibly empty)
// label; when nothing matches both fields stay as they are. The extractor's own
// result is taken from the extractor (checked against the reference elsewhere).
//
//verif:reach matched matched-empty-label no-match
//verif:paths 100000
func VerifC15_ExtractTransformApplies() {
	schema := base.MustNewLogSchema([]string{"msg", "tag", "other"})
	tail := sym.Bool("extractTail")
	c := &Config{Key: "msg", DestKey: "tag", Pattern: "\\[*\\] ", MaxLength: 6}
	c.Type = "extractHead"
	if tail {
		c.Type, c.Pattern = "extractTail", " (*)"
	}
	sym.Assert(c.VerifyConfig(schema) == nil, "configuration accepted")
	tf := c.NewTransform(schema, logger.Root(), nil).(*extractSpecialTransform)
	n := sym.Choice("textLen", 6)
	text := sym.String("text", n, n)
	for i := 0; i < n; i++ {
		sym.ConcretizeBool(text[i] == ' ')
	}
	wantLabel, wantRest := tf.extractor.Extract(text)
	rec := schema.NewTestRecord1(base.LogFields{string(append([]byte{}, text...)), "old", "o"})
	sym.Assert(tf.Transform(rec) == base.PASS, "extraction never drops")
	if len(wantRest) != len(text) {
		sym.Assert(rec.Fields[0] == wantRest, "the matched boundaries and label are cut from the source field")
		sym.Assert(rec.Fields[1] == wantLabel, "the destination field is overwritten with the label, an empty one included")
		if wantLabel == "" {
			sym.Reach("matched-empty-label")
		} else {
			sym.Reach("matched")
		}
	} else {
		sym.Assert(rec.Fields[0] == text && rec.Fields[1] == "old", "without a match both fields stay as they are")
		sym.Reach("no-match")
	}
	sym.Assert(rec.Fields[2] == "o", "unrelated fields are untouched")
}
