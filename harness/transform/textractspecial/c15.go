package textractspecial

// C15 — head/tail extraction against a reference written from the documented
// semantics: boundaries, character table, search range, trimming.

import "github.com/relex/slog-agent/zz_verif/sym"

func verifTrim(s string) string {
	a, b := 0, len(s)
	for a < b && s[a] <= ' ' {
		a++
	}
	for b > a && s[b-1] <= ' ' {
		b--
	}
	return s[a:b]
}

func verifAllValid(s string, table []bool) bool {
	for i := 0; i < len(s); i++ {
		if table != nil && !table[s[i]] {
			return false
		}
	}
	return true
}

func verifEqAt(s string, at int, pat string) bool {
	if at < 0 || at+len(pat) > len(s) {
		return false
	}
	for i := 0; i < len(pat); i++ {
		if s[at+i] != pat[i] {
			return false
		}
	}
	return true
}

// verifRefTail: label at the end of text.
func verifRefTail(text, left, right string, maxRange int, table []bool) (string, string) {
	s := text
	if len(right) > 0 {
		if !verifEqAt(text, len(text)-len(right), right) {
			return "", text
		}
		s = text[:len(text)-len(right)]
	}
	if len(s) > 0 && table != nil && !table[s[len(s)-1]] {
		return "", text
	}
	if len(left) > 0 {
		lo := 0
		if len(s) > maxRange {
			lo = len(s) - maxRange
		}
		for at := len(s) - len(left); at >= lo; at-- { // last occurrence entirely inside the window
			if verifEqAt(s, at, left) {
				tag := s[at+len(left):]
				if !verifAllValid(tag, table) {
					return "", text
				}
				return verifTrim(tag), s[:at]
			}
		}
		return "", text
	}
	b := len(s)
	for b > 0 && table[s[b-1]] {
		b--
	}
	if b == len(s) {
		return "", text
	}
	return verifTrim(s[b:]), s[:b]
}

// verifRefHead: label at the start of text.
func verifRefHead(text, left, right string, maxRange int, table []bool) (string, string) {
	s := text
	if len(left) > 0 {
		if !verifEqAt(text, 0, left) {
			return "", text
		}
		s = text[len(left):]
	}
	if len(s) > 0 && table != nil && !table[s[0]] {
		return "", text
	}
	if len(right) > 0 {
		hi := len(s)
		if len(s) > maxRange {
			hi = maxRange
		}
		for at := 0; at+len(right) <= hi; at++ { // first occurrence entirely inside the window
			if verifEqAt(s, at, right) {
				tag := s[:at]
				if !verifAllValid(tag, table) {
					return "", text
				}
				return verifTrim(tag), s[at+len(right):]
			}
		}
		return "", text
	}
	e := 0
	for e < len(s) && table[s[e]] {
		e++
	}
	if e == 0 {
		return "", text
	}
	return verifTrim(s[:e]), s[e:]
}

func verifExtractCase(tail bool) {
	patterns := []string{"\\[*\\] ", " (*)", "[a-z0-9-]:", "-[a-z]", "\\[[a-z ]\\]"}
	if !tail {
		patterns = []string{"\\[*\\] ", "<*>", "[a-z0-9-]:", "[a-z]", "\\[[a-z ]\\]"}
	}
	pat := patterns[sym.Choice("pattern", len(patterns))]
	maxRange := sym.Choice("maxRange", 6) + 1
	n := sym.Choice("textLen", 7)
	text := sym.String("text", n, n)
	pos := extractFromStart
	if tail {
		pos = extractFromEnd
	}
	ex, err := newStringExtractorSimple(pos, pat, maxRange)
	sym.Assume(err == nil)
	label, rest := ex.Extract(text)
	var wl, wr string
	if tail {
		wl, wr = verifRefTail(text, ex.leftBound, ex.rightBound, maxRange, ex.validChars)
	} else {
		wl, wr = verifRefHead(text, ex.leftBound, ex.rightBound, maxRange, ex.validChars)
	}
	sym.Assert(label == wl, "extracted label equals the reference")
	sym.Assert(rest == wr, "remaining text equals the reference")
	if len(rest) != len(text) {
		sym.Reach("extracted")
	} else {
		sym.Assert(label == "" && rest == text, "no match leaves the text alone")
		sym.Reach("no-match")
	}
	sym.Observe("label", label)
}

// VerifC15_ExtractTail: all texts up to 6 bytes, five patterns, search range 1..6.
//
//verif:reach extracted no-match
//verif:paths 100000
func VerifC15_ExtractTail() { verifExtractCase(true) }

// VerifC15_ExtractHead: all texts up to 6 bytes, five patterns, search range 1..6.
//
//verif:reach extracted no-match
//verif:paths 100000
func VerifC15_ExtractHead() { verifExtractCase(false) }

// VerifC07_ExtractHeadAnyLabel: the head-extraction run read for C07: the
// extraction steps run on the connection goroutine of the input, where nothing
// recovers a panic - no label (blank, control characters only, empty) may panic.
//
//verif:reach extracted no-match
//verif:paths 100000
func VerifC07_ExtractHeadAnyLabel() { VerifC15_ExtractHead() }
