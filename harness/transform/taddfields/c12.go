package taddfields

// C12 — transform instances are per pipeline / per connection and run on their
// own goroutines: two instances built from one configuration, each expanding a
// multi-part template on its own record at the same time (the scheduler may
// preempt once at any call into the agent's packages, i.e. between the parts of
// an expansion): each record gets the value built from its own fields only.

import (
	"github.com/relex/gotils/logger"
	"github.com/relex/slog-agent/base"
	"github.com/relex/slog-agent/zz_verif/sym"
)

// VerifC12_ConcurrentInstancesDoNotShareScratch
//
//verif:native off
//verif:preempt 1
//verif:preemptcalls github.com/relex/slog-agent/
//verif:delays 1
//verif:reach done
//verif:paths 100000
func VerifC12_ConcurrentInstancesDoNotShareScratch() {
	schema := base.MustNewLogSchema([]string{"user", "session", "out"})
	cfg := &Config{Fields: map[string]string{"out": "user=$user session=$session"}}
	sym.Assert(cfg.VerifyConfig(schema) == nil, "configuration accepted")
	tfA := cfg.NewTransform(schema, logger.Root(), nil)
	tfB := cfg.NewTransform(schema, logger.Root(), nil)
	recA := schema.NewTestRecord1(base.LogFields{"alice", "s-AAAA", ""})
	recB := schema.NewTestRecord1(base.LogFields{"mallory", "s-BB", ""})
	done := make(chan struct{}, 2)
	go func() { tfA.Transform(recA); done <- struct{}{} }()
	go func() { tfB.Transform(recB); done <- struct{}{} }()
	<-done
	<-done
	sym.Assert(recA.Fields[2] == "user=alice session=s-AAAA", "a record's expanded field is built from its own fields only, whatever another pipeline expands at the same time")
	sym.Assert(recB.Fields[2] == "user=mallory session=s-BB", "the other record likewise")
	sym.Reach("done")
}
