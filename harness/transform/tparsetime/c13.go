package tparsetime

// C13 — timestamps are parsed exactly; parsing is total.
//
// Symbolic mode: time.Date / time.Parse / time.FixedZone / Time.Zone are
// replaced by the recording stubs below (the standard library's conversion of
// the eight Date arguments to an instant is trusted); the oracle is "the
// arguments reaching time.Date are exactly the fields denoted by the string".
// Native mode (replay, translator validation): the real functions run and the
// same oracle is evaluated on the resulting time.Time.

import (
	"errors"
	"time"

	"github.com/relex/gotils/logger"
	"github.com/relex/slog-agent/base"
	"github.com/relex/slog-agent/zz_verif/sym"
)

type verifCounter struct{ n, bytes int }

func (c *verifCounter) RegisterCustomCounter(label string) func(int) {
	return func(l int) { c.n++; c.bytes += l }
}

type verifDateRec struct {
	calls                        int
	y, mon, d, h, mi, s, ns, off int
	local                        bool
}

var verifDate verifDateRec
var verifZoneOff = map[*time.Location]int{}
var verifParsedOff int

func verifStubDate(year int, month time.Month, day, hour, min, sec, nsec int, loc *time.Location) time.Time {
	verifDate.calls++
	sym.Assert(loc != nil, "time.Date is never called with a nil location (it panics)")
	verifDate.y, verifDate.mon, verifDate.d, verifDate.h, verifDate.mi, verifDate.s, verifDate.ns = year, int(month), day, hour, min, sec, nsec
	off, ok := verifZoneOff[loc]
	if loc == time.UTC {
		off, ok = 0, true // the predefined UTC location: offset zero
	}
	verifDate.off, verifDate.local = off, !ok
	return time.Time{}
}

func verifStubFixedZone(name string, offset int) *time.Location {
	loc := new(time.Location)
	verifZoneOff[loc] = offset
	return loc
}

func verifStubZone(t time.Time) (string, int) { return "", verifParsedOff }

func verifDig(b byte) bool { return b >= '0' && b <= '9' }

// verifStubParse models time.Parse for the layouts "Z07:00" and "Z0700":
// "Z" is UTC, ±hh:mm / ±hhmm with hh<=23 and mm<=59 is that offset, any other
// value yields an arbitrary (time, error) result.
func verifStubParse(layout, v string) (time.Time, error) {
	if v == "Z" {
		verifParsedOff = 0
		return time.Time{}, nil
	}
	colon := layout == "Z07:00"
	var hh, mm int
	ok := false
	if colon && len(v) == 6 && (v[0] == '+' || v[0] == '-') && verifDig(v[1]) && verifDig(v[2]) && v[3] == ':' && verifDig(v[4]) && verifDig(v[5]) {
		hh, mm, ok = int(v[1]-'0')*10+int(v[2]-'0'), int(v[4]-'0')*10+int(v[5]-'0'), true
	}
	if !colon && len(v) == 5 && (v[0] == '+' || v[0] == '-') && verifDig(v[1]) && verifDig(v[2]) && verifDig(v[3]) && verifDig(v[4]) {
		hh, mm, ok = int(v[1]-'0')*10+int(v[2]-'0'), int(v[3]-'0')*10+int(v[4]-'0'), true
	}
	if ok && hh <= 23 && mm <= 59 {
		off := hh*3600 + mm*60
		if v[0] == '-' {
			off = -off
		}
		verifParsedOff = off
		return time.Time{}, nil
	}
	// time.Parse is a function of its arguments: one arbitrary answer per harness run (every harness uses one zone string)
	if !verifTzDecided {
		verifTzDecided = true
		verifTzFails = sym.Bool("tzParseFails")
		if !verifTzFails {
			verifTzOff = sym.IntRange("tzOffset", -90000, 90000)
		}
	}
	if verifTzFails {
		return time.Time{}, errors.New("bad zone")
	}
	verifParsedOff = verifTzOff
	return time.Time{}, nil
}

var verifTzDecided, verifTzFails bool
var verifTzOff int

// verifStubParseFloat models strconv.ParseFloat for ".d…d" (1..15 digits) as
// the correctly rounded quotient digits/10^k (IEEE-754 division is correctly
// rounded and both operands are exact).
func verifStubParseFloat(s string, bits int) (float64, error) {
	if len(s) < 2 || len(s) > 16 || s[0] != '.' {
		return 0, errors.New("unsupported by stub")
	}
	n := 0
	p := 1
	for i := 1; i < len(s); i++ {
		if !verifDig(s[i]) {
			return 0, errors.New("syntax")
		}
		n = n*10 + int(s[i]-'0')
		p *= 10
	}
	return float64(n) / float64(p), nil
}

func verifNewTransform(cnt *verifCounter) (*parseTimeTransform, base.LogSchema) {
	verifTzDecided = false
	schema := base.MustNewLogSchema([]string{"time", "msg"})
	cfg := &Config{Key: "time", ErrorLabel: "timeError"}
	return cfg.NewTransform(schema, logger.Root(), cnt).(*parseTimeTransform), schema
}

// verifNum appends n decimal digits (each an independent symbolic digit) and
// returns the number they denote; no division is needed this way.
func verifNum(b []byte, name string, n int) ([]byte, int) {
	v := 0
	for i := 0; i < n; i++ {
		d := sym.IntRange(name, 0, 9)
		b = append(b, byte('0'+d))
		v = v*10 + d
	}
	return b, v
}

// verifExact checks one fraction width f (0 = no fraction).
func verifExact(f int) {
	verifDate = verifDateRec{}
	b := make([]byte, 0, 40)
	b, y := verifNum(b, "year", 4)
	b, mon := verifNum(append(b, '-'), "month", 2)
	b, d := verifNum(append(b, '-'), "day", 2)
	b, h := verifNum(append(b, 'T'), "hour", 2)
	b, mi := verifNum(append(b, ':'), "min", 2)
	b, s := verifNum(append(b, ':'), "sec", 2)
	sym.Assume(mon >= 1 && mon <= 12 && d >= 1 && d <= 28 && h <= 23 && mi <= 59 && s <= 59)
	expNs := 0
	if f > 0 {
		b, expNs = verifNum(append(b, '.'), "frac", f)
		for i := f; i < 9; i++ {
			expNs *= 10
		}
	}
	expOff := 0
	form := sym.Choice("zoneForm", 5)
	if form == 0 {
		b = append(b, 'Z')
	} else {
		sign := byte('+')
		if form == 2 || form == 4 {
			sign = '-'
		}
		var zh, zm int
		b, zh = verifNum(append(b, sign), "zoneHour", 2)
		if form <= 2 {
			b = append(b, ':')
		}
		b, zm = verifNum(b, "zoneMin", 2)
		sym.Assume(zh <= 23 && zm <= 59)
		expOff = zh*3600 + zm*60
		if sign == '-' {
			expOff = -expOff
		}
	}
	cnt := &verifCounter{}
	tf, schema := verifNewTransform(cnt)
	fallback := time.Unix(1600000000, 0)
	rec := schema.NewTestRecord2(fallback, base.LogFields{string(b), ""})
	res := tf.Transform(rec)
	sym.Assert(res == base.PASS, "parseTime passes the record")
	sym.Assert(cnt.n == 0, "valid timestamp is not counted as an error")
	if sym.Symbolic() {
		sym.Assert(verifDate.calls == 1, "time.Date called once")
		sym.Assert(verifDate.y == y && verifDate.mon == mon && verifDate.d == d, "date fields exact")
		sym.Assert(verifDate.h == h && verifDate.mi == mi && verifDate.s == s, "clock fields exact")
		sym.Assert(verifDate.ns == expNs, "fraction exact to the nanosecond")
		sym.Assert(!verifDate.local && verifDate.off == expOff, "zone offset exact")
	} else {
		tm := rec.Timestamp
		_, off := tm.Zone()
		sym.Assert(tm.Year() == y && int(tm.Month()) == mon && tm.Day() == d, "date fields exact")
		sym.Assert(tm.Hour() == h && tm.Minute() == mi && tm.Second() == s, "clock fields exact")
		sym.Assert(tm.Nanosecond() == expNs, "fraction exact to the nanosecond")
		sym.Assert(off == expOff, "zone offset exact")
	}
	sym.Observe("ns", expNs)
	sym.Reach("parsed")
}

//verif:stub time.Date verifStubDate
//verif:stub time.Parse verifStubParse
//verif:stub time.FixedZone verifStubFixedZone
//verif:stub (time.Time).Zone verifStubZone
//verif:stub strconv.ParseFloat verifStubParseFloat
//verif:reach parsed
func VerifC13_Exact_f0() { verifExact(0) }

//verif:stub time.Date verifStubDate
//verif:stub time.Parse verifStubParse
//verif:stub time.FixedZone verifStubFixedZone
//verif:stub (time.Time).Zone verifStubZone
//verif:stub strconv.ParseFloat verifStubParseFloat
//verif:reach parsed
func VerifC13_Exact_f1() { verifExact(1) }

//verif:stub time.Date verifStubDate
//verif:stub time.Parse verifStubParse
//verif:stub time.FixedZone verifStubFixedZone
//verif:stub (time.Time).Zone verifStubZone
//verif:stub strconv.ParseFloat verifStubParseFloat
//verif:reach parsed
func VerifC13_Exact_f2() { verifExact(2) }

//verif:stub time.Date verifStubDate
//verif:stub time.Parse verifStubParse
//verif:stub time.FixedZone verifStubFixedZone
//verif:stub (time.Time).Zone verifStubZone
//verif:stub strconv.ParseFloat verifStubParseFloat
//verif:reach parsed
func VerifC13_Exact_f3() { verifExact(3) }

//verif:stub time.Date verifStubDate
//verif:stub time.Parse verifStubParse
//verif:stub time.FixedZone verifStubFixedZone
//verif:stub (time.Time).Zone verifStubZone
//verif:stub strconv.ParseFloat verifStubParseFloat
//verif:reach parsed
func VerifC13_Exact_f4() { verifExact(4) }

//verif:stub time.Date verifStubDate
//verif:stub time.Parse verifStubParse
//verif:stub time.FixedZone verifStubFixedZone
//verif:stub (time.Time).Zone verifStubZone
//verif:stub strconv.ParseFloat verifStubParseFloat
//verif:reach parsed
func VerifC13_Exact_f5() { verifExact(5) }

//verif:stub time.Date verifStubDate
//verif:stub time.Parse verifStubParse
//verif:stub time.FixedZone verifStubFixedZone
//verif:stub (time.Time).Zone verifStubZone
//verif:stub strconv.ParseFloat verifStubParseFloat
//verif:reach parsed
func VerifC13_Exact_f6() { verifExact(6) }

//verif:stub time.Date verifStubDate
//verif:stub time.Parse verifStubParse
//verif:stub time.FixedZone verifStubFixedZone
//verif:stub (time.Time).Zone verifStubZone
//verif:stub strconv.ParseFloat verifStubParseFloat
//verif:reach parsed
func VerifC13_Exact_f7() { verifExact(7) }

//verif:stub time.Date verifStubDate
//verif:stub time.Parse verifStubParse
//verif:stub time.FixedZone verifStubFixedZone
//verif:stub (time.Time).Zone verifStubZone
//verif:stub strconv.ParseFloat verifStubParseFloat
//verif:reach parsed
func VerifC13_Exact_f8() { verifExact(8) }

//verif:stub time.Date verifStubDate
//verif:stub time.Parse verifStubParse
//verif:stub time.FixedZone verifStubFixedZone
//verif:stub (time.Time).Zone verifStubZone
//verif:stub strconv.ParseFloat verifStubParseFloat
//verif:reach parsed
func VerifC13_Exact_f9() { verifExact(9) }

// verifShaped is the property's notion of "shaped like a date-time": at least
// 19 bytes with the five separators in place.
func verifShaped(v string) bool {
	return len(v) >= 19 && v[4] == '-' && v[7] == '-' && v[10] == 'T' && v[13] == ':' && v[16] == ':'
}

//verif:stub time.Date verifStubDate
//verif:stub time.Parse verifStubParse
//verif:stub time.FixedZone verifStubFixedZone
//verif:stub (time.Time).Zone verifStubZone
//verif:stub strconv.ParseFloat verifStubParseFloat
//verif:reach error-counted timestamp-set
//verif:unwind 160
func VerifC13_Total() {
	verifDate = verifDateRec{}
	max := 26
	if sym.Tier() > 0 {
		max = 128
	}
	v := sym.String("time", 0, max)
	cnt := &verifCounter{}
	tf, schema := verifNewTransform(cnt)
	fallback := time.Unix(1600000000, 0)
	rec := schema.NewTestRecord2(fallback, base.LogFields{v, ""})
	rec.RawLength = 77
	res := tf.Transform(rec) // obligation: no panic for any string
	sym.Assert(res == base.PASS, "parseTime never drops")
	sym.Assert(cnt.n == 0 || cnt.n == 1, "at most one error per record")
	if cnt.n == 1 {
		sym.Assert(cnt.bytes == 77, "error counted with the record length")
		sym.Assert(rec.Timestamp == fallback, "fallback time left in place on error")
		sym.Reach("error-counted")
	} else if len(v) > 0 {
		sym.Reach("timestamp-set")
	}
	if !verifShaped(v) {
		if len(v) == 0 {
			sym.Assert(cnt.n == 1, "empty value reported as an error")
		} else {
			sym.Assert(cnt.n == 1, "unshaped value reported as an error")
		}
		sym.Assert(rec.Timestamp == fallback, "unshaped value leaves the fallback time")
	}
}

// VerifC07_ParseTimeAnyBytes: the parseTime stage read as a robustness claim: no panic for any string.
//
//verif:stub time.Date verifStubDate
//verif:stub time.Parse verifStubParse
//verif:stub time.FixedZone verifStubFixedZone
//verif:stub (time.Time).Zone verifStubZone
//verif:stub strconv.ParseFloat verifStubParseFloat
//verif:reach error-counted timestamp-set
//verif:unwind 160
func VerifC07_ParseTimeAnyBytes() { VerifC13_Total() }

// VerifC13_EveryErrorCounted: two malformed timestamps through the same
// transform (equal or different): each one is counted, with its record length.
//
//verif:stub time.Date verifStubDate
//verif:stub time.Parse verifStubParse
//verif:stub time.FixedZone verifStubFixedZone
//verif:stub (time.Time).Zone verifStubZone
//verif:stub strconv.ParseFloat verifStubParseFloat
//verif:reach same different
func VerifC13_EveryErrorCounted() {
	verifDate = verifDateRec{}
	n1 := sym.Choice("len1", 4)
	n2 := sym.Choice("len2", 4)
	v1, v2 := sym.String("time1", n1, n1), sym.String("time2", n2, n2)
	cnt := &verifCounter{}
	tf, schema := verifNewTransform(cnt)
	fallback := time.Unix(1600000000, 0)
	r1 := schema.NewTestRecord2(fallback, base.LogFields{v1, ""})
	r2 := schema.NewTestRecord2(fallback, base.LogFields{v2, ""})
	r1.RawLength, r2.RawLength = 10, 7
	tf.Transform(r1)
	tf.Transform(r2)
	sym.Assert(cnt.n == 2 && cnt.bytes == 17, "every malformed timestamp is counted, repeated ones included")
	sym.Assert(r1.Timestamp == fallback && r2.Timestamp == fallback, "fallback time left in place")
	if v1 == v2 {
		sym.Reach("same")
	} else {
		sym.Reach("different")
	}
}

// VerifC13_RepeatedZone: the zone cache: the same timestamp (well-formed
// date-time, zone suffix of 1..6 arbitrary bytes) through one transform twice:
// the second record gets exactly the result of the first - same error
// accounting, same time.Date arguments and offset - and nothing panics.
//
//verif:stub time.Date verifStubDate
//verif:stub time.Parse verifStubParse
//verif:stub time.FixedZone verifStubFixedZone
//verif:stub (time.Time).Zone verifStubZone
//verif:stub strconv.ParseFloat verifStubParseFloat
//verif:reach both-errors both-parsed
func VerifC13_RepeatedZone() {
	verifDate = verifDateRec{}
	n := 1 + sym.Choice("zoneLen", 6)
	v := "2020-03-04T05:06:07" + sym.String("zone", n, n)
	cnt := &verifCounter{}
	tf, schema := verifNewTransform(cnt)
	fallback := time.Unix(1600000000, 0)
	r1 := schema.NewTestRecord2(fallback, base.LogFields{v, ""})
	r2 := schema.NewTestRecord2(fallback, base.LogFields{v, ""})
	r1.RawLength, r2.RawLength = 10, 10
	tf.Transform(r1)
	first, firstErrs := verifDate, cnt.n
	verifDate = verifDateRec{}
	tf.Transform(r2) // obligation: no panic on the cached zone
	sym.Assert(cnt.n-firstErrs == firstErrs, "the second occurrence of a timestamp is accounted like the first")
	if firstErrs == 0 {
		sym.Assert(verifDate.calls == first.calls && verifDate.off == first.off && verifDate.local == first.local && verifDate.s == first.s,
			"the cached zone gives the same instant as the first parse")
		sym.Reach("both-parsed")
	} else {
		sym.Assert(r2.Timestamp == fallback, "fallback time left in place on the repeated error")
		sym.Reach("both-errors")
	}
}

// VerifC13_ConcurrentInstances: two parseTime transform instances built from
// one configuration (two pipelines, or two connections' extraction steps) parse
// timestamps with the same or different zones at the same time, with one
// preemption at any call into the agent's packages: both records are parsed
// without error, and no Go map is touched by both goroutines without
// synchronisation (the zone cache is per instance; a shared unsynchronised map
// aborts the real process with "concurrent map writes").
//
//verif:native off
//verif:preempt 1
//verif:preemptcalls github.com/relex/slog-agent/
//verif:delays 1
//verif:stub time.Date verifStubDate
//verif:stub time.Parse verifStubParse
//verif:stub time.FixedZone verifStubFixedZone
//verif:stub (time.Time).Zone verifStubZone
//verif:stub strconv.ParseFloat verifStubParseFloat
//verif:reach done
func VerifC13_ConcurrentInstances() {
	zones := []string{"+01:00", "-02:30", "Z"}
	cntA, cntB := &verifCounter{}, &verifCounter{}
	tfA, schema := verifNewTransform(cntA)
	tfB, _ := verifNewTransform(cntB)
	za, zb := zones[sym.Choice("zoneA", 3)], zones[sym.Choice("zoneB", 3)]
	done := make(chan base.FilterResult, 2)
	work := func(tf *parseTimeTransform, zone string) {
		rec := schema.NewTestRecord2(time.Unix(1600000000, 0), base.LogFields{"2020-03-04T05:06:07" + zone, ""})
		rec.RawLength = 10
		done <- tf.Transform(rec)
	}
	go work(tfA, za)
	go work(tfB, zb)
	r1, r2 := <-done, <-done
	sym.Assert(r1 == base.PASS && r2 == base.PASS, "both records pass")
	sym.Assert(cntA.n == 0 && cntB.n == 0, "neither timestamp is counted as an error")
	sym.Reach("done")
}
