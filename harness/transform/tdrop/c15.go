package tdrop

// C15 — sampled dropping tracks the configured percentage to within one record
// at every prefix: one inductive step from an arbitrary counter state that
// satisfies |100*dropped - rate*matched| <= 100 (a history of any length).

import (
	"github.com/relex/gotils/logger"
	"github.com/relex/slog-agent/base"
	"github.com/relex/slog-agent/base/bmatch"
	"github.com/relex/slog-agent/zz_verif/sym"
)

var verifDropSchema = base.MustNewLogSchema([]string{"msg"})

//verif:solver cvc5-int
//verif:reach dropped kept
func VerifC15_DropSamplingStep() {
	r := sym.IntRange("rate", 1, 99)
	m := sym.IntRange("matched", 0, 1<<40)
	d := sym.IntRange("dropped", 0, 1<<40)
	sym.Assume(d <= m)
	e := 100*d - r*m
	sym.Assume(e >= -100 && e <= 100)
	nd, nk := 0, 0
	tf := &dropTransform{
		matcher:       bmatch.LogMatcher{},
		countDropped:  func(int) { nd++ },
		countRetained: func(int) { nk++ },
		targetRate:    int64(r),
		totalMatched:  int64(m),
		totalDropped:  int64(d),
	}
	rec := verifDropSchema.NewTestRecord1(base.LogFields{"x"})
	res := tf.Transform(rec)
	m2, d2 := int(tf.totalMatched), int(tf.totalDropped)
	sym.Assert(m2 == m+1, "every matched record is counted")
	e2 := 100*d2 - r*m2
	sym.Assert(e2 >= -100 && e2 <= 100, "dropped share stays within one record of the configured percentage")
	if res == base.DROP {
		sym.Assert(d2 == d+1 && nd == 1 && nk == 0, "a dropped record is counted as dropped")
		sym.Reach("dropped")
	} else {
		sym.Assert(d2 == d && nd == 0 && nk == 1, "a retained record is counted as retained")
		sym.Reach("kept")
	}
}

// VerifC15_DropAlways: 100% drops every matching record and only those.
//
//verif:reach dropped passed
func VerifC15_DropAlways() {
	cfg := &Config{Match: bmatch.VerifMatch("msg", "!!str-start", "a"), Percentage: 100, MetricLabel: "x"}
	sym.Assert(cfg.VerifyConfig(verifDropSchema) == nil, "config accepted")
	n := 0
	tf := cfg.NewTransform(verifDropSchema, logger.Root(), verifReg(func(int) { n++ }))
	k := sym.Choice("len", 3)
	msg := sym.String("msg", k, k)
	res := tf.Transform(verifDropSchema.NewTestRecord1(base.LogFields{msg}))
	if len(msg) > 0 && msg[0] == 'a' {
		sym.Assert(res == base.DROP && n == 1, "matching record dropped and counted")
		sym.Reach("dropped")
	} else {
		sym.Assert(res == base.PASS && n == 0, "non-matching record passes uncounted")
		sym.Reach("passed")
	}
}

type verifReg func(int)

func (f verifReg) RegisterCustomCounter(label string) func(int) { return f }
