package localcachedmap

// C06 — the lookup key built from the key-field values must be injective.

import (
	"github.com/relex/slog-agent/util"
	"github.com/relex/slog-agent/zz_verif/sym"
)

func verifTuple(prefix string, m, maxLen int) []string {
	vals := make([]string, m)
	for i := range vals {
		n := sym.Choice(prefix+"Len", maxLen+1)
		vals[i] = sym.String(prefix, n, n)
	}
	return vals
}

func verifSameTuple(a, b []string) bool {
	same := true
	for i := range a {
		if a[i] != b[i] {
			same = false
		}
	}
	return same
}

// VerifC06_LookupKeyInjective: two key tuples over arbitrary bytes (empty values
// included) get the same object iff they are equal in every position, and each
// object is created from a private copy of its own tuple.
//
//verif:reach same different
func VerifC06_LookupKeyInjective() {
	m := 2
	maxLen := 2
	if sym.Tier() > 0 {
		m = sym.Choice("fields", 3) + 1
		maxLen = 4 // values of 0..4 bytes: lengths on both sides of the one-digit length prefix are not reachable (10+), stated
	}
	a := verifTuple("a", m, maxLen)
	b := verifTuple("b", m, maxLen)
	var created [][]string
	gm := NewGlobalMap[int, int](
		func(keys []string, onStopped func()) int { created = append(created, keys); return len(created) },
		func(int) {},
		func(g int) int { return g },
	)
	lm := gm.MakeLocalMap()
	ia := lm.GetOrCreate(a, func([]string) {})
	ib := lm.GetOrCreate(b, func([]string) {})
	same := verifSameTuple(a, b)
	sym.Assert((ia == ib) == same, "two tuples share an object iff they are equal field by field")
	sym.Assert(len(created) >= 1 && verifSameTuple(created[0], a), "first object created from its own tuple")
	if !same && len(created) == 2 {
		sym.Assert(verifSameTuple(created[1], b), "second object created from its own tuple")
	}
	// another connection (a second local cache) resolves to the same objects
	lm2 := gm.MakeLocalMap()
	sym.Assert(lm2.GetOrCreate(b, func([]string) {}) == ib && lm2.GetOrCreate(a, func([]string) {}) == ia, "second local cache agrees")
	sym.Assert(lm.GetOrCreate(a, func([]string) {}) == ia, "cached lookup is stable")
	if same {
		sym.Reach("same")
	} else {
		sym.Reach("different")
	}
}

// VerifC06_KeysAreCopied: the key values a pipeline is created with must not
// alias the record's (pooled, reused) buffer: overwriting the buffer after the
// lookup leaves the constructor's keys and later lookups intact.
//
//verif:reach checked
func VerifC06_KeysAreCopied() {
	n := sym.Choice("len", 3) + 1
	buf := sym.Bytes("value", n, n)
	orig := string(buf) // private copy kept by the harness
	var createdKeys []string
	gm := NewGlobalMap[int, int](
		func(keys []string, onStopped func()) int { createdKeys = keys; return 1 },
		func(int) {},
		func(g int) int { return g },
	)
	lm := gm.MakeLocalMap()
	var notified []string
	lm.GetOrCreate([]string{util.StringFromBytes(buf), "x"}, func(perm []string) { notified = perm })
	for i := range buf {
		buf[i] = sym.Byte("overwrite") // the record is released and its buffer reused
	}
	sym.Assert(len(createdKeys) == 2 && createdKeys[0] == orig && createdKeys[1] == "x", "constructor keys survive reuse of the record buffer")
	sym.Assert(len(notified) == 2 && notified[0] == orig, "notified keys survive reuse of the record buffer")
	sym.Assert(lm.GetOrCreate([]string{orig, "x"}, func([]string) {}) == 1, "the original tuple still finds its object")
	sym.Reach("checked")
}

// VerifC12_KeysOutliveTheRecord: the deep-copy discipline read as record isolation.
//
//verif:reach checked
func VerifC12_KeysOutliveTheRecord() { VerifC06_KeysAreCopied() }

// VerifC06_LookupKeyInjectiveLongValues: the same injectivity question with
// value lengths on both sides of the places where the decimal length prefix
// changes its width (9/10/11 bytes; thorough: also 99/100/101), every byte of
// every value symbolic: tuples such as ('0','aaaaaaaa1b') and ('10aaaaaaaa','b')
// must not share an object. Lengths are case-split, contents are decided by the solver.
//
//verif:reach same different
//verif:paths 200000
func VerifC06_LookupKeyInjectiveLongValues() {
	lens := []int{0, 1, 9, 10, 11}
	if sym.Tier() > 0 {
		lens = []int{0, 1, 2, 9, 10, 11, 12, 99, 100, 101}
	}
	tuple := func(prefix string) []string {
		vals := make([]string, 2)
		for i := range vals {
			n := lens[sym.Choice(prefix+"Len", len(lens))]
			vals[i] = sym.String(prefix, n, n)
		}
		return vals
	}
	a := tuple("a")
	b := tuple("b")
	created := 0
	gm := NewGlobalMap[int, int](
		func(keys []string, onStopped func()) int { created++; return created },
		func(int) {},
		func(g int) int { return g },
	)
	lm := gm.MakeLocalMap()
	ia := lm.GetOrCreate(a, func([]string) {})
	ib := lm.GetOrCreate(b, func([]string) {})
	same := verifSameTuple(a, b)
	sym.Assert((ia == ib) == same, "two tuples of longer values share an object iff they are equal field by field")
	if same {
		sym.Reach("same")
	} else {
		sym.Reach("different")
	}
}
