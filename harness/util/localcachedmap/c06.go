package localcachedmap

// C06 — the lookup key built from the key-field values must be injective.

import "github.com/relex/slog-agent/zz_verif/sym"

func verifTuple(prefix string, m, maxLen int) []string {
	vals := make([]string, m)
	for i := range vals {
		n := sym.Choice(prefix+"Len", maxLen+1)
		vals[i] = sym.String(prefix, n, n)
	}
	return vals
}

func verifSameTuple(a, b []string) bool {
	same := true
	for i := range a {
		if a[i] != b[i] {
			same = false
		}
	}
	return same
}

// VerifC06_LookupKeyInjective: two key tuples over arbitrary bytes (empty values
// included) get the same object iff they are equal in every position, and each
// object is created from a private copy of its own tuple.
//
//verif:reach same different
func VerifC06_LookupKeyInjective() {
	m := 2
	maxLen := 2
	if sym.Tier() > 0 {
		m = sym.Choice("fields", 3) + 1
	}
	a := verifTuple("a", m, maxLen)
	b := verifTuple("b", m, maxLen)
	var created [][]string
	gm := NewGlobalMap[int, int](
		func(keys []string, onStopped func()) int { created = append(created, keys); return len(created) },
		func(int) {},
		func(g int) int { return g },
	)
	lm := gm.MakeLocalMap()
	ia := lm.GetOrCreate(a, func([]string) {})
	ib := lm.GetOrCreate(b, func([]string) {})
	same := verifSameTuple(a, b)
	sym.Assert((ia == ib) == same, "two tuples share an object iff they are equal field by field")
	sym.Assert(len(created) >= 1 && verifSameTuple(created[0], a), "first object created from its own tuple")
	if !same && len(created) == 2 {
		sym.Assert(verifSameTuple(created[1], b), "second object created from its own tuple")
	}
	// another connection (a second local cache) resolves to the same objects
	lm2 := gm.MakeLocalMap()
	sym.Assert(lm2.GetOrCreate(b, func([]string) {}) == ib && lm2.GetOrCreate(a, func([]string) {}) == ia, "second local cache agrees")
	sym.Assert(lm.GetOrCreate(a, func([]string) {}) == ia, "cached lookup is stable")
	if same {
		sym.Reach("same")
	} else {
		sym.Reach("different")
	}
}
