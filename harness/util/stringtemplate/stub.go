package stringtemplate

import "fmt"

// VerifStubNewExpander replaces NewExpander under the symbolic engine: the
// template is split by a hand-written scanner instead of regexp (which the
// engine does not model); variable resolution and createVariableExpressionSolver
// are the real ones. Accepted syntax: literal text, $name, ${name},
// ${name[start:end]} with optional signed decimal bounds.
func VerifStubNewExpander(template string, createVariableResolver VariableResolverCreator) (Expander, error) {
	capturedNameIndex, capturedStartIndex, capturedEndIndex = 1, 3, 4
	var providers []PartProvider
	i := 0
	for i < len(template) {
		if template[i] != '$' {
			j := i
			for j < len(template) && template[j] != '$' {
				j++
			}
			providers = append(providers, newPartResolverForString(template[i:j]))
			i = j
			continue
		}
		if i+1 < len(template) && template[i+1] == '$' {
			return Empty, fmt.Errorf("escaping of $ is unsupported")
		}
		if i+1 < len(template) && template[i+1] == '{' {
			j := i + 2
			for j < len(template) && template[j] != '}' {
				j++
			}
			if j == len(template) {
				return Empty, fmt.Errorf("unenclosed variable quotes")
			}
			sub, ok := verifSplitExpr(template[i+2 : j])
			if !ok {
				return Empty, fmt.Errorf("unrecognized variable expression")
			}
			vp, err := createVariableResolver(sub[1])
			if err != nil {
				return Empty, err
			}
			solver, serr := createVariableExpressionSolver(vp, sub)
			if serr != nil {
				return Empty, serr
			}
			providers = append(providers, solver)
			i = j + 1
			continue
		}
		j := i + 1
		for j < len(template) && verifWordChar(template[j]) {
			j++
		}
		if j == i+1 {
			return Empty, fmt.Errorf("unenclosed variable quotes")
		}
		vp, err := createVariableResolver(template[i+1 : j])
		if err != nil {
			return Empty, err
		}
		providers = append(providers, vp)
		i = j
	}
	return Expander{partProviders: providers}, nil
}

func verifWordChar(c byte) bool {
	return c == '_' || (c >= '0' && c <= '9') || (c >= 'a' && c <= 'z') || (c >= 'A' && c <= 'Z')
}

// verifSplitExpr splits "name" or "name[start:end]" into the five submatches
// {whole, name, bracket, start, end} that variableExpressionRegex would produce.
func verifSplitExpr(e string) ([]string, bool) {
	n := 0
	for n < len(e) && verifWordChar(e[n]) {
		n++
	}
	if n == 0 {
		return nil, false
	}
	sub := []string{e, e[:n], "", "", ""}
	if n == len(e) {
		return sub, true
	}
	if e[n] != '[' || e[len(e)-1] != ']' {
		return nil, false
	}
	in := e[n+1 : len(e)-1]
	c := -1
	for k := 0; k < len(in); k++ {
		if in[k] == ':' {
			c = k
			break
		}
	}
	if c < 0 || !verifInt(in[:c]) || !verifInt(in[c+1:]) {
		return nil, false
	}
	sub[2], sub[3], sub[4] = e[n:], in[:c], in[c+1:]
	return sub, true
}

func verifInt(s string) bool {
	if s == "" {
		return true
	}
	if s[0] == '-' {
		s = s[1:]
	}
	if s == "" {
		return false
	}
	for k := 0; k < len(s); k++ {
		if s[k] < '0' || s[k] > '9' {
			return false
		}
	}
	return true
}
