package stringunescape

// C10 / C15 — unescapers created in different places (the 'unescape' rewriter of
// the output, the 'unescape' transform, the pattern unescaper of extractHead /
// extractTail) each translate exactly their own escape pairs.

import "github.com/relex/slog-agent/zz_verif/sym"

func verifUnescapeOne(m map[byte]byte, x byte) string {
	if x == '\\' {
		return "\\"
	}
	if y, ok := m[x]; ok && y != 0 {
		return string([]byte{y})
	}
	return string([]byte{'\\', x})
}

// VerifC10_UnescapersAreIndependent: two unescapers with the same escape
// character and different tables (the message unescaper's n/t/r... and a second
// one with an arbitrary extra pair, as the pattern unescaper's `[ ] *`), created
// in either order: for every byte x after a backslash each one produces what
// its own table says - a pair known only to the other one stays as written.
//
//verif:reach own-pair foreign-pair unknown-pair
func VerifC10_UnescapersAreIndependent() {
	m1 := map[byte]byte{'n': '\n', 't': '\t', '"': '"'}
	extra, extraTo := sym.Byte("extraEscapable"), sym.Byte("extraTarget")
	sym.Assume(extra != '\\' && extraTo != 0)
	m2 := map[byte]byte{'[': '[', '*': '*', extra: extraTo}
	var u1, u2 Unescaper
	if sym.Bool("secondCreatedFirst") {
		u2 = NewUnescaper('\\', m2)
		u1 = NewUnescaper('\\', m1)
	} else {
		u1 = NewUnescaper('\\', m1)
		u2 = NewUnescaper('\\', m2)
	}
	x := sym.Byte("escaped")
	src := string([]byte{'a', '\\', x, 'b'})
	got1, got2 := u1.Run(src), u2.Run(src)
	sym.Assert(got1 == "a"+verifUnescapeOne(m1, x)+"b", "the first unescaper translates exactly the pairs of its own table")
	sym.Assert(got2 == "a"+verifUnescapeOne(m2, x)+"b", "the second unescaper translates exactly the pairs of its own table")
	_, in1 := m1[x]
	_, in2 := m2[x]
	switch {
	case in1:
		sym.Reach("own-pair")
	case in2:
		sym.Reach("foreign-pair")
	default:
		sym.Reach("unknown-pair")
	}
}

// VerifC15_UnescapersAreIndependent: the same question read for the transforms (unescape, extractHead/extractTail patterns).
//
//verif:reach own-pair foreign-pair unknown-pair
func VerifC15_UnescapersAreIndependent() { VerifC10_UnescapersAreIndependent() }
