// Selftests exercise the engine itself (property id T00).
package util

import (
	"bytes"
	"errors"
	"io"
	"regexp"
	"strconv"
	"strings"

	"github.com/relex/slog-agent/zz_verif/sym"
)

type shape interface{ area() int }
type rect struct{ w, h int }
type sq struct{ s int }

func (r rect) area() int { return r.w * r.h }
func (s *sq) area() int  { return s.s * s.s }

// VerifT00_Arith: wrap-around arithmetic, comparisons, shifts.
func VerifT00_Arith() {
	x := sym.IntRange("x", -1000, 1000)
	y := sym.IntRange("y", 1, 50)
	q, r := x/8, x%8
	sym.Assert(q*8+r == x, "divmod identity")
	sym.Assert(uint8(x)+uint8(y) == uint8(x+y), "truncation is a homomorphism")
	sym.Assert((x<<3)>>3 == x, "shift round trip")
	var s shape = rect{x, 2}
	if y > 25 {
		s = &sq{y}
	}
	a := s.area()
	sym.Assert(a == 2*x || a == y*y, "dynamic dispatch")
	sym.Observe("a", a)
	sym.Reach("end")
}

// VerifT00_Bytes: slices, append, copy, strings of symbolic content.
func VerifT00_Bytes() {
	b := sym.Bytes("b", 0, 6)
	n := 0
	for _, c := range b {
		if c == ' ' {
			n++
		}
	}
	s := string(b)
	sym.Assert(strings.Count(s, " ") == n, "count agrees")
	i := strings.IndexByte(s, ' ')
	sym.Assert((i == -1) == (n == 0), "index vs count")
	if i >= 0 {
		sym.Assert(s[i] == ' ', "index points at space")
		sym.Assert(!strings.Contains(s[:i], " "), "first occurrence")
	}
	c := append([]byte("ab"), b...)
	sym.Assert(len(c) == len(b)+2 && c[0] == 'a', "append")
	if len(b) > 0 {
		sym.Assert(c[len(c)-1] == b[len(b)-1], "append tail")
	}
	sym.Observe("c", c)
	sym.Reach("end")
}

// VerifT00_MapsClosuresDefer: maps with symbolic keys, closures, defer/recover.
func VerifT00_MapsClosuresDefer() {
	k := sym.String("k", 0, 2)
	m := map[string]int{"a": 1, "bb": 2}
	v, ok := m[k]
	sym.Assert(ok == (k == "a" || k == "bb"), "lookup ok")
	if ok {
		sym.Assert((v == 1) == (k == "a"), "lookup value")
	}
	total := 0
	add := func(d int) { total += d }
	add(v)
	add(3)
	sym.Assert(total == v+3, "closure capture")
	r := func() (res int) {
		defer func() {
			if e := recover(); e != nil {
				res = -1
			}
		}()
		var arr []int
		idx := sym.IntRange("idx", 0, 1)
		if idx == 1 {
			panic(errors.New("boom"))
		}
		_ = arr
		return 7
	}()
	sym.Assert(r == 7 || r == -1, "recover")
	sym.Observe("r", r)
	sym.Reach("end")
}

// VerifT00_Atoi: real strconv.Atoi on symbolic digits.
func VerifT00_Atoi() {
	s := sym.String("s", 1, 3)
	for i := 0; i < len(s); i++ {
		sym.Assume(s[i] >= '0' && s[i] <= '9')
	}
	n, err := strconv.Atoi(s)
	sym.Assert(err == nil, "digits parse")
	sym.Assert(n >= 0 && n <= 999, "range")
	if len(s) == 2 {
		sym.Assert(n == int(s[0]-'0')*10+int(s[1]-'0'), "value")
	}
	sym.Observe("n", n)
	sym.Reach("end")
}

// VerifT00_FindsBug must be reported as violated (index out of range for len 0).
func VerifT00_FindsBug() {
	b := sym.Bytes("b", 0, 4)
	if len(b) != 3 {
		_ = b[0]
	}
	sym.Reach("end")
}

type verifEmbW struct {
	io.Writer
	buf [1]byte
}

func (w *verifEmbW) WriteByte(c byte) error {
	w.buf[0] = c
	_, err := w.Write(w.buf[:])
	return err
}

// VerifT00_EmbeddedInterfaceWriter: promoted method through an embedded interface, over a bytes.Buffer.
//
//verif:reach done
func VerifT00_EmbeddedInterfaceWriter() {
	var b bytes.Buffer
	w := &verifEmbW{Writer: &b}
	c := sym.Byte("c")
	w.WriteByte(c)
	w.WriteByte('x')
	out := b.Bytes()
	sym.Assert(len(out) == 2 && out[0] == c && out[1] == 'x', "bytes written through the embedded writer")
	sym.Reach("done")
}

var verifRe = regexp.MustCompile(`\$(\w+)|\$\{(\w+)\}`)

// VerifT00_Regexp: can the engine execute the regexp package on a concrete input?
//
//verif:reach done
//verif:steps 50000000
func VerifT00_Regexp() {
	m := verifRe.FindAllStringSubmatchIndex("a.$app.${lvl}", -1)
	sym.Assert(len(m) == 2 && m[0][0] == 2 && m[1][0] == 7, "matches found")
	sym.Reach("done")
}
