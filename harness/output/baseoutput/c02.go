package baseoutput

// C02 — the client confirms a chunk only after its ACK and never loses one.
// C05 — (transmission order) per connection, chunks go out in creation order.
// C18 — (client) after the stop request the worker terminates; no deadlock.
// Real ClientWorker / clientSession / acknowledger goroutines under the
// scheduler layer, against a scripted connection: every connect / send / ping /
// ACK-read takes its outcome from a symbolic script.

import (
	"errors"
	"os"
	"syscall"
	"time"

	"github.com/relex/gotils/channels"
	"github.com/relex/gotils/logger"
	"github.com/relex/slog-agent/base"
	"github.com/relex/slog-agent/defs"
	"github.com/relex/slog-agent/zz_verif/fakes"
	"github.com/relex/slog-agent/zz_verif/sym"
)

var verifChunkIDs = []string{"c1", "c2", "c3", "c4", "c5"}

type verifMonitor struct {
	byID        bool // ACKs name the chunk (fluentd) or are positional (datadog style, "")
	faultsLeft  int  // after that many faults every operation succeeds (so that histories are finite)
	dials       int
	conns       []*verifConn
	consumed    []string
	leftover    []string
	finished    int
	afterFinish bool // a callback arrived after OnFinished
	ackedOK     map[string]bool
	progress    chan struct{} // one token per environment event, consumed by the harness to place the stop request
}

func (m *verifMonitor) event() {
	select {
	case m.progress <- struct{}{}:
	default:
	}
}

type verifConn struct {
	n        int
	mon      *verifMonitor
	closed   chan struct{}
	isClosed bool
	sentOK   []string // chunks whose SendChunk returned nil on this connection, in order
	unacked  []string // of those, not yet acknowledged by the scripted upstream
}

func (m *verifMonitor) outcome(op string, n int) int {
	if m.faultsLeft <= 0 {
		return 0
	}
	o := sym.Choice(op, n)
	if o != 0 {
		m.faultsLeft--
	}
	return o
}

func (m *verifMonitor) dial() (ClosableClientConnection, error) {
	m.dials++
	m.event()
	switch m.outcome("connect", 3) {
	case 1:
		return nil, errors.New("connection refused (scripted)")
	case 2:
		// black-holed upstream: the dial returns only when its own timeouts expire
		time.Sleep(defs.ForwarderConnectionTimeout + defs.ForwarderHandshakeTimeout)
		return nil, errors.New("connection timed out (scripted)")
	}
	c := &verifConn{n: len(m.conns), mon: m, closed: make(chan struct{})}
	m.conns = append(m.conns, c)
	return c, nil
}

func (c *verifConn) Logger() logger.Logger { return logger.Root() }

func (c *verifConn) Close() {
	if !c.isClosed {
		c.isClosed = true
		close(c.closed)
	}
}

var errScripted = errors.New("connection error (scripted)")

// blockUntilClosedOrDeadline: a hung operation returns when the connection is
// closed (interface contract) or when its deadline passes.
func (c *verifConn) blockUntilClosedOrDeadline(deadline time.Time) {
	wait := time.Second
	if verifHonourDeadlines && !deadline.IsZero() {
		wait = time.Until(deadline) // the deadline the client armed for this very operation (tens of seconds)
	}
	select {
	case <-c.closed:
	case <-time.After(wait):
	}
}

// verifHonourDeadlines: a hung operation lasts until the deadline the client passed for it (instead of 1 s).
var verifHonourDeadlines bool

func (c *verifConn) SendChunk(chunk base.LogChunk, deadline time.Time) error {
	c.mon.event()
	if c.isClosed {
		return errScripted
	}
	// per connection the chunks of a pipeline go out in creation order
	for _, id := range c.sentOK {
		sym.Assert(id < chunk.ID, "chunks are transmitted in creation order on a connection")
	}
	switch c.mon.outcome("send", 3) {
	case 1:
		return errScripted
	case 2:
		c.blockUntilClosedOrDeadline(deadline) // blocked mid-write
		return errScripted
	}
	c.sentOK = append(c.sentOK, chunk.ID)
	c.unacked = append(c.unacked, chunk.ID)
	return nil
}

func (c *verifConn) SendPing(deadline time.Time) error {
	if c.isClosed || c.mon.outcome("ping", 2) == 1 {
		return errScripted
	}
	return nil
}

func (c *verifConn) ReadChunkAck(deadline time.Time) (string, error) {
	c.mon.event()
	if c.isClosed {
		return "", errScripted
	}
	if len(c.unacked) == 0 {
		c.blockUntilClosedOrDeadline(deadline) // nothing outstanding: the upstream stays silent
		return "", errScripted
	}
	n := 3
	if c.mon.byID {
		n = 5
	}
	switch c.mon.outcome("ack", n) {
	case 1:
		return "", errScripted
	case 2:
		c.blockUntilClosedOrDeadline(deadline) // ACK never arrives
		return "", errScripted
	case 3:
		return "unknown-id", nil
	case 4:
		// acknowledge the newest outstanding chunk instead of the oldest
		id := c.unacked[len(c.unacked)-1]
		c.unacked = c.unacked[:len(c.unacked)-1]
		c.mon.ackedOK[id] = true
		return id, nil
	}
	id := c.unacked[0]
	c.unacked = c.unacked[1:]
	c.mon.ackedOK[id] = true
	if c.mon.byID {
		return id, nil
	}
	return "", nil
}

func (m *verifMonitor) onConsumed(chunk base.LogChunk) {
	if m.finished > 0 {
		m.afterFinish = true
	}
	sym.Assert(m.ackedOK[chunk.ID], "a chunk is reported delivered only after the upstream acknowledged that very chunk on a connection that carried it completely")
	for _, id := range m.consumed {
		sym.Assert(id != chunk.ID, "a chunk is reported delivered at most once")
	}
	m.consumed = append(m.consumed, chunk.ID)
}

func (m *verifMonitor) onLeftover(chunk base.LogChunk) {
	if m.finished > 0 {
		m.afterFinish = true
	}
	for _, id := range m.leftover {
		sym.Assert(id != chunk.ID, "a chunk is handed back at most once")
	}
	m.leftover = append(m.leftover, chunk.ID)
}

func (m *verifMonitor) onFinished() { m.finished++ }

func verifContains(list []string, id string) bool {
	for _, x := range list {
		if x == id {
			return true
		}
	}
	return false
}

// SIGUSR1 delivery: signal.Notify is replaced (in the soft-reconnect harness) by a
// recorder of the subscribed channels; the harness raises the signal itself.
var verifSigChans []chan<- os.Signal

func verifStubSignalNotify(c chan<- os.Signal, sig ...os.Signal) {
	verifSigChans = append(verifSigChans, c)
}

func verifRaiseUSR1() {
	for _, c := range verifSigChans {
		select { // os/signal never blocks on a subscriber
		case c <- syscall.SIGUSR1:
		default:
		}
	}
}

var verifUSR1AtEvent = -1

func verifClientScenario(byID bool, k, faults, ackQueue int, maxDuration time.Duration) {
	verifSigChans = nil
	defer func(v int) { defs.ForwarderMaxPendingChunksForAck = v }(defs.ForwarderMaxPendingChunksForAck)
	defs.ForwarderMaxPendingChunksForAck = ackQueue
	mon := &verifMonitor{byID: byID, faultsLeft: faults, ackedOK: map[string]bool{}, progress: make(chan struct{}, 64)}
	metrics := fakes.NewMetrics()
	in := make(chan base.LogChunk, k)
	closed := channels.NewSignalAwaitable()
	w := NewClientWorker(logger.Root(), base.ChunkConsumerArgs{InputChannel: in, InputClosed: closed,
		OnChunkConsumed: mon.onConsumed, OnChunkLeftover: mon.onLeftover, OnFinished: mon.onFinished},
		metrics, mon.dial, maxDuration)
	w.Start()
	for i := 0; i < k; i++ {
		in <- base.LogChunk{ID: verifChunkIDs[i], Data: []byte{byte(i), 1, 2}}
	}
	// the stop request comes after a symbolic number of environment events
	// (connects, sends, ACK reads), or when the client has gone idle
	stopAfter := sym.Choice("stopAfterEvents", 2*k+5)
	for i := 0; i < stopAfter; i++ {
		if i == verifUSR1AtEvent {
			verifRaiseUSR1()
		}
		idle := false
		select {
		case <-mon.progress:
		case <-time.After(15 * time.Second): // longer than the retry interval, shorter than the ping interval: the client is idle
			idle = true
		}
		if idle {
			break
		}
	}
	close(in)
	stopAt := sym.VirtualNow()
	// the stop request aborts the session that is active at that moment; a stop that arrives between two sessions
	// (reconnecting) finds none, and an operation of the next session that hangs then runs into its own deadline
	sessionActiveAtStop := w.(*ClientWorker).activeSession.Load() != nil
	closed.Signal()
	w.Stopped().WaitForever() // deadlock = the client does not terminate after the stop request
	// C18: every wait on the stop path is interrupted by the stop request; the only time that may pass
	// is the deadline of one operation that is hung on a connection nobody can abort any more (1 s in this script)
	if verifHonourDeadlines && !sessionActiveAtStop {
		// with real deadlines (tens of seconds) that one operation may take its configured deadline; the client must
		// still be done before the buffer's Destroy gives up waiting for it
		sym.Assert(sym.VirtualNow()-stopAt < int(defs.BufferShutDownTimeout), "a stop request that arrives between two sessions still ends the client within the configured shutdown bound")
	} else {
		sym.Assert(sym.VirtualNow()-stopAt <= int(2*time.Second), "the client stops within the deadline of one hung operation after the stop request")
	}
	// ---- every chunk taken from the queue is resolved exactly once ----
	var notTaken []string
	for c := range in {
		notTaken = append(notTaken, c.ID)
	}
	sym.Assert(mon.finished == 1 && !mon.afterFinish, "OnFinished is called exactly once, after the last callback")
	for i := 0; i < k; i++ {
		id := verifChunkIDs[i]
		n := 0
		if verifContains(mon.consumed, id) {
			n++
		}
		if verifContains(mon.leftover, id) {
			n++
		}
		if verifContains(notTaken, id) {
			n++
		}
		sym.Assert(n >= 1, "no chunk is lost: delivered, handed back, or still in the queue")
		sym.Assert(n <= 1, "no chunk is resolved twice")
	}
	for i := 1; i < len(mon.leftover); i++ {
		sym.Assert(mon.leftover[i-1] < mon.leftover[i], "chunks are handed back in creation order")
	}
	// ---- C19: client counters match what the scripted upstream saw ----
	sentOK, acked := 0, 0
	for _, c := range mon.conns {
		sentOK += len(c.sentOK)
	}
	for range mon.ackedOK {
		acked++
	}
	_ = acked
	sym.Assert(int(metrics.CounterValue("acknowledged_chunks_total")) == len(mon.consumed), "acknowledged count = chunks reported delivered")
	sym.Assert(int(metrics.CounterValue("forwarded_chunks_total")) <= sentOK, "forwarded count never exceeds what the upstream received completely")
	sym.Assert(metrics.GaugeVecValue("queued_chunks", "pendingAck") == 0, "no chunk is counted as pending ACK after the client has stopped")
	sym.Assert(metrics.GaugeVecValue("queued_chunks", "leftover") == 0, "the leftover gauge is back to zero after the hand-back")
	if len(mon.leftover) > 0 {
		sym.Reach("handed-back")
	}
	if len(mon.consumed) > 0 {
		sym.Reach("delivered")
	}
	if len(mon.conns) > 1 {
		sym.Reach("reconnected")
		if mon.faultsLeft == faults {
			sym.Reach("soft-reconnected") // a second connection without any fault: session age or SIGUSR1
		}
	}
	sym.Reach("stopped")
}

// VerifC02_SessionById: fluentd-style ACKs (by chunk id, any order, unknown ids).
//
//verif:preempt 0
//verif:timers 30
//verif:clock virtual
//verif:native off
//verif:delays 2
//verif:thorough delays 3
//verif:reach stopped delivered handed-back reconnected
//verif:paths 400000
func VerifC02_SessionById() {
	verifClientScenario(true, 2+sym.Tier(), 2, 1, 0)
}

// VerifC02_SessionPositional: positional ACKs ("" = oldest outstanding chunk).
//
//verif:preempt 0
//verif:timers 30
//verif:clock virtual
//verif:native off
//verif:delays 2
//verif:thorough delays 3
//verif:reach stopped delivered handed-back
//verif:paths 400000
func VerifC02_SessionPositional() {
	verifClientScenario(false, 2+sym.Tier(), 2, 1, 0)
}

// VerifC05_TransmissionOrder: the client scenario read as the ordering
// guarantee: on every connection chunks go out in creation order (leftovers
// before new chunks), and hand-backs are in creation order.
//
//verif:preempt 0
//verif:timers 30
//verif:clock virtual
//verif:native off
//verif:delays 2
//verif:thorough delays 3
//verif:reach stopped delivered handed-back reconnected
//verif:paths 400000
func VerifC05_TransmissionOrder() { verifClientScenario(true, 2+sym.Tier(), 2, 1, 0) }

// VerifC18_ClientStops: the client scenario read as bounded shutdown: after the
// stop request the worker terminates (no deadlock) within the deadline of one
// hung operation, for every scripted upstream state.
//
//verif:preempt 0
//verif:timers 30
//verif:clock virtual
//verif:native off
//verif:delays 2
//verif:thorough delays 3
//verif:reach stopped delivered handed-back reconnected
//verif:paths 400000
func VerifC18_ClientStops() { verifClientScenario(true, 2+sym.Tier(), 2, 1, 0) }

// VerifC01_ClientCustody: link L5 of the custody chain (a chunk taken from the
// buffer is delivered after its ACK or handed back).
//
//verif:preempt 0
//verif:timers 30
//verif:clock virtual
//verif:native off
//verif:delays 2
//verif:thorough delays 3
//verif:reach stopped delivered handed-back reconnected
//verif:paths 400000
func VerifC01_ClientCustody() { verifClientScenario(true, 2+sym.Tier(), 2, 1, 0) }

// VerifC19_ClientCounters: the client scenario read as the output balance:
// acknowledged = delivered, forwarded <= received upstream, gauges back to zero.
//
//verif:preempt 0
//verif:timers 30
//verif:clock virtual
//verif:native off
//verif:delays 2
//verif:thorough delays 3
//verif:reach stopped delivered handed-back reconnected
//verif:paths 400000
func VerifC19_ClientCounters() { verifClientScenario(true, 2+sym.Tier(), 2, 1, 0) }

// VerifC02_SoftReconnect: the soft-reconnect triggers - maximum session age
// (12 s of virtual time, shorter than every other idle period of the script)
// and SIGUSR1 raised after a symbolic number of environment events - with one
// scripted fault: the session waits for the outstanding ACKs, the leftovers go
// to the next session first, nothing is lost, duplicated or reported early.
//
//verif:preempt 0
//verif:timers 30
//verif:clock virtual
//verif:native off
//verif:delays 1
//verif:thorough delays 2
//verif:stub os/signal.Notify verifStubSignalNotify
//verif:reach stopped delivered handed-back reconnected soft-reconnected
//verif:paths 400000
func VerifC02_SoftReconnect() {
	defer func() { verifUSR1AtEvent = -1 }()
	maxAge := time.Duration(0)
	switch sym.Choice("trigger", 3) {
	case 0:
		maxAge = 12 * time.Second
	case 1:
		verifUSR1AtEvent = sym.Choice("usr1AtEvent", 5)
	case 2:
		maxAge = 12 * time.Second
		verifUSR1AtEvent = sym.Choice("usr1AtEvent", 5)
	}
	verifClientScenario(true, 2+sym.Tier(), 1, 1, maxAge)
}

// VerifC02_FullAckWindow: the client scenario with an ACK window of zero (the
// hand-off to the acknowledger is a rendezvous): the second chunk is written
// to the wire and then waits at the hand-off while the acknowledger is still
// reading the first ACK - the state in which a failing or hung ACK read, or the
// stop request, must not let the waiting chunk fall between sender and acknowledger.
//
//verif:preempt 0
//verif:timers 30
//verif:clock virtual
//verif:native off
//verif:delays 2
//verif:thorough delays 3
//verif:reach stopped delivered handed-back reconnected
//verif:paths 400000
func VerifC02_FullAckWindow() { verifClientScenario(true, 2+sym.Tier(), 2, 0, 0) }

// VerifC01_ClientCustodyFullAckWindow: the same run read as link L5 of the custody chain.
//
//verif:preempt 0
//verif:timers 30
//verif:clock virtual
//verif:native off
//verif:delays 2
//verif:thorough delays 3
//verif:reach stopped delivered handed-back reconnected
//verif:paths 400000
func VerifC01_ClientCustodyFullAckWindow() { verifClientScenario(true, 2+sym.Tier(), 2, 0, 0) }

// VerifC02_AcknowledgerEndRace: the client scenario with one preemption placed
// at any visible operation (atomic, channel, signal, lock) of the acknowledger
// goroutine: what the acknowledger publishes when it ends (its un-ACKed chunks,
// its "ended" signal) is consumed by the sender's collectLeftovers, and no
// interleaving of the two may lose a chunk that was transmitted and awaits its ACK.
//
//verif:preempt 1
//verif:preemptin runAcknowledger
//verif:timers 30
//verif:clock virtual
//verif:native off
//verif:delays 1
//verif:thorough delays 2
//verif:reach stopped delivered handed-back
//verif:paths 400000
func VerifC02_AcknowledgerEndRace() {
	verifClientScenario(true, 2, 1+sym.Tier(), 1, 0)
}

// VerifC18_StopAbortsHungOperations: the client scenario with hung operations
// that last as long as the deadline the client armed for them (a send blocked
// mid-write to a peer that stopped reading, an ACK that never comes: tens of
// seconds to minutes), not the scripted second: the stop request must abort
// the operation in progress (closing the connection unblocks it), so the
// client still stops at once instead of waiting the deadline out - and no
// chunk is lost on the way.
//
//verif:preempt 0
//verif:timers 30
//verif:clock virtual
//verif:native off
//verif:delays 1
//verif:thorough delays 2
//verif:reach stopped handed-back
//verif:paths 400000
func VerifC18_StopAbortsHungOperations() {
	verifHonourDeadlines = true
	defer func() { verifHonourDeadlines = false }()
	verifClientScenario(true, 2, 1+sym.Tier(), 1, 0)
}
