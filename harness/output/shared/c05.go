package shared

// C05 — chunk ids are strictly increasing in creation order (as strings, which
// is what recovery and retransmission sort by), under a non-decreasing clock.

import "github.com/relex/slog-agent/zz_verif/sym"

//verif:solver cvc5-int
//verif:reach done
func VerifC05_ChunkIdsIncrease() {
	g := newChunkIDGenerator(".ff")
	a := g.Generate()
	b := g.Generate()
	c := g.Generate()
	sym.Assert(len(a) == 31 && len(b) == 31 && len(c) == 31, "ids have the fixed-width layout")
	sym.Assert(a < b && b < c, "ids increase strictly in creation order (string order = creation order)")
	sym.Assert(a[len(a)-3:] == ".ff", "ids carry the output's suffix")
	sym.Reach("done")
}
