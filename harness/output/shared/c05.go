package shared

// C05 — chunk ids are strictly increasing in creation order (as strings, which
// is what recovery and retransmission sort by), under a non-decreasing clock.

import (
	"time"

	"github.com/relex/slog-agent/zz_verif/sym"
)

//verif:solver cvc5-int
//verif:reach done
func VerifC05_ChunkIdsIncrease() {
	g := newChunkIDGenerator(".ff")
	a := g.Generate()
	b := g.Generate()
	c := g.Generate()
	sym.Assert(len(a) == 31 && len(b) == 31 && len(c) == 31, "ids have the fixed-width layout")
	sym.Assert(a < b && b < c, "ids increase strictly in creation order (string order = creation order)")
	sym.Assert(a[len(a)-3:] == ".ff", "ids carry the output's suffix")
	sym.Reach("done")
}

// VerifC11_ChunkIdsUniqueAcrossIncarnations: a chunk maker is re-created
// (restart, reload, relaunched pipeline) and makes its first chunk strictly
// later than the last chunk of its predecessor - by any amount of time, a
// nanosecond included: the two ids differ and sort in creation order (the id is
// the storage name: a collision would overwrite or unlink a stored chunk).
//
//verif:solver cvc5-int
//verif:reach done
func VerifC11_ChunkIdsUniqueAcrossIncarnations() {
	g1 := newChunkIDGenerator(".ff")
	g1.Generate()
	a := g1.Generate()
	t1 := time.Now()
	t2 := time.Now()
	sym.Assume(t2.UnixNano() > t1.UnixNano()) // time passes between the incarnations
	g2 := newChunkIDGenerator(".ff")
	b := g2.Generate()
	sym.Assert(a != b, "chunk ids are unique across incarnations of a chunk maker")
	sym.Assert(a < b, "ids of a later incarnation sort after the ids of the earlier one")
	sym.Reach("done")
}

// VerifC05_ChunkIdsOrderedAcrossIncarnations: the same run read for C05 (recovery sorts stored chunks by id).
//
//verif:solver cvc5-int
//verif:reach done
func VerifC05_ChunkIdsOrderedAcrossIncarnations() { VerifC11_ChunkIdsUniqueAcrossIncarnations() }

// VerifC05_ChunkIdsOrderedAcrossRestart: the agent process ends and a new one
// starts (package-level state is re-initialised, the clock keeps running): the
// first chunk id of the new process sorts after the last id of the old one -
// recovery and retransmission sort stored chunks by id, so an id that depends
// on anything that restarts with the process (time since start, a counter)
// puts new chunks in front of the recovered backlog.
//
//verif:native off
//verif:solver cvc5-int
//verif:reach done
func VerifC05_ChunkIdsOrderedAcrossRestart() {
	g1 := newChunkIDGenerator(".ff")
	g1.Generate()
	a := g1.Generate()
	t1 := time.Now()
	sym.RestartProcess()
	t2 := time.Now()
	sym.Assume(t2.UnixNano() > t1.UnixNano()) // time passes between the two processes
	g2 := newChunkIDGenerator(".ff")
	b := g2.Generate()
	sym.Assert(a != b, "chunk ids are unique across a restart of the process")
	sym.Assert(a < b, "ids made after a restart sort after the ids made before it")
	sym.Reach("done")
}

// VerifC11_ChunkIdsUniqueAcrossRestart: the same run read for C11 (the id is the storage name).
//
//verif:native off
//verif:solver cvc5-int
//verif:reach done
func VerifC11_ChunkIdsUniqueAcrossRestart() { VerifC05_ChunkIdsOrderedAcrossRestart() }
