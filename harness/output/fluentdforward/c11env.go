package fluentdforward

// C11 — the envelope: the real chunkEncoder (vmihailenco msgpack encoder over a
// bytes.Buffer that is reused between chunks) for two consecutive chunks of
// symbolic payload length (up to 5 MiB, content abstract): both messages are
// well-formed [tag, bin payload, option] with the payload unchanged. Only the
// reflection-based Encode(TransportOption) is replaced by a model that writes
// the documented map through the same encoder.

import (
	"github.com/relex/fluentlib/protocol/forwardprotocol"
	"github.com/relex/slog-agent/zz_verif/sym"
	"github.com/vmihailenco/msgpack/v4"
)

// verifStubEncodeOption models (*msgpack.Encoder).Encode for forwardprotocol.TransportOption:
// a map of size / chunk / compressed (omitempty) written with the encoder's own primitives.
func verifStubEncodeOption(e *msgpack.Encoder, v interface{}) error {
	opt := v.(forwardprotocol.TransportOption)
	n := 2
	if opt.Compressed != "" {
		n = 3
	}
	if err := e.EncodeMapLen(n); err != nil {
		return err
	}
	if err := e.EncodeString("size"); err != nil {
		return err
	}
	if err := e.EncodeInt64(int64(opt.Size)); err != nil { // struct int fields are written as int64 (no compact ints)
		return err
	}
	if err := e.EncodeString("chunk"); err != nil {
		return err
	}
	if err := e.EncodeString(opt.Chunk); err != nil {
		return err
	}
	if opt.Compressed != "" {
		if err := e.EncodeString("compressed"); err != nil {
			return err
		}
		return e.EncodeString(opt.Compressed)
	}
	return nil
}

func verifCheckEnvelope(out []byte, tag string, data []byte, id string) {
	r := &verifReader{b: out}
	sym.Assert(len(out) > 0 && r.u8() == 0x93, "the message is an array of three")
	r.str(tag, "tag")
	c := r.u8()
	n := 0
	switch c {
	case 0xc4:
		n = r.uN(1)
	case 0xc5:
		n = r.uN(2)
	case 0xc6:
		n = r.uN(4)
	default:
		sym.Assert(false, "the payload is a bin value")
	}
	sym.Assert(n == len(data), "the bin length is the payload length")
	j := sym.IntRange("anyIndex", 0, 6*1024*1024)
	if j < len(data) && r.p+j < len(out) {
		sym.Assert(out[r.p+j] == data[j], "the payload is carried unchanged")
	}
	r.p += n
	sym.Assert(r.p < len(out), "the option map follows the payload")
	if r.p >= len(out) {
		return
	}
	sym.Assert(r.mapLen() == 2, "option map: size and chunk")
	r.str("size", "key size")
	sym.Assert(r.u8() == 0xd3 && r.uN(4) == 0 && r.uN(4) == 7, "size = number of records")
	r.str("chunk", "key chunk")
	r.str(id, "chunk id")
	sym.Assert(r.p == len(out), "nothing follows the message")
}

// VerifC11_EnvelopeTwoChunks
//
//verif:stub (*github.com/vmihailenco/msgpack/v4.Encoder).Encode verifStubEncodeOption
//verif:reach big small
//verif:paths 2000
func VerifC11_EnvelopeTwoChunks() {
	enc := newEncoder("the.tag", false, msgBufCapacity)
	// the first payload is small or exceptionally large (beyond four times the buffer's initial capacity)
	var d1 []byte
	if sym.Bool("largeFirst") {
		d1 = sym.BigBytes("payload1", 4*1024*1024+1, 5*1024*1024)
	} else {
		d1 = sym.BigBytes("payload1", 1, 200)
	}
	d2 := sym.BigBytes("payload2", 1, 200)
	out1, err1 := enc.EncodeChunk(d1, &encodeChunkParams{ID: "id-1", NumRecords: 7, NumBytes: len(d1)})
	sym.Assert(err1 == nil, "first chunk encodes")
	out2, err2 := enc.EncodeChunk(d2, &encodeChunkParams{ID: "id-2", NumRecords: 7, NumBytes: len(d2)})
	sym.Assert(err2 == nil, "second chunk encodes")
	verifCheckEnvelope(out1, "the.tag", d1, "id-1")
	verifCheckEnvelope(out2, "the.tag", d2, "id-2")
	if len(d1) > 4*1024*1024 {
		sym.Reach("big")
	} else {
		sym.Reach("small")
	}
}
