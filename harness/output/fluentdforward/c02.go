package fluentdforward

// C02 — the transmission leaf: writeAll (under SendChunk and SendPing) puts every byte of the chunk
// on the wire exactly once and in order, for every pattern of short writes the
// socket may make, and report the first error.

import (
	"errors"
	"io"
	"net"
	"time"

	"github.com/relex/gotils/logger"
	"github.com/relex/slog-agent/base"
	"github.com/relex/slog-agent/zz_verif/sym"
	"github.com/vmihailenco/msgpack/v4"
)

type verifShortWriter struct {
	wire   []byte
	calls  int
	failAt int
}

var errVerifWrite = errors.New("scripted write error")

// Write accepts an arbitrary non-empty prefix (io.Writer contract: n < len(p) only with an error;
// net.Conn.Write loops internally, but TLS and deadlines may still return short counts with an error).
func (w *verifShortWriter) Write(p []byte) (int, error) {
	w.calls++
	if w.calls == w.failAt {
		n := sym.IntRange("partial", 0, len(p))
		w.wire = append(w.wire, p[:n]...)
		return n, errVerifWrite
	}
	n := sym.IntRange("accepted", 1, len(p))
	w.wire = append(w.wire, p[:n]...)
	return n, nil
}

// VerifC02_WriteAllShortWrites: writeAll over a writer that accepts an arbitrary
// non-empty prefix per call and may fail at the k-th call.
//
//verif:reach complete failed
//verif:unwind 12
func VerifC02_WriteAllShortWrites() {
	n := sym.Choice("len", 6)
	data := sym.Bytes("data", n, n)
	w := &verifShortWriter{failAt: sym.Choice("failAt", 5)} // 0 = never
	if n == 0 {
		return // writeAll is never called with an empty chunk (C04: empty chunks are not forwarded)
	}
	err := writeAll(w, data)
	if err == nil {
		sym.Assert(len(w.wire) == n, "success means every byte was written")
		for i := 0; i < n; i++ {
			sym.Assert(w.wire[i] == data[i], "bytes are written once and in order")
		}
		sym.Assert(w.failAt == 0 || w.calls < w.failAt, "an error of the socket is never swallowed")
		sym.Reach("complete")
	} else {
		sym.Assert(err == errVerifWrite && w.calls == w.failAt, "the first socket error is reported and no further write is attempted")
		for i := 0; i < len(w.wire); i++ {
			sym.Assert(i < n && w.wire[i] == data[i], "what was written before the error is a prefix of the chunk")
		}
		sym.Reach("failed")
	}
}

// ---- the connection leaf: every blocking operation runs under its own deadline ----
// The client scenario (baseoutput harness) assumes that a hung send / ping /
// ACK read returns when its deadline passes; forwardConnection discharges that
// by setting the matching socket deadline before each operation.

type verifDeadlineConn struct {
	readDeadline, writeDeadline time.Time
	wantRead, wantWrite         time.Time
	reads, writes               int
	failSet                     bool
	readErr                     error // what a read from the silent upstream ends with (nil: the scripted write error)
}

func (c *verifDeadlineConn) Read(p []byte) (int, error) {
	c.reads++
	sym.Assert(c.readDeadline.Equal(c.wantRead), "a read from the upstream runs under the read deadline given for this operation")
	if c.readErr != nil {
		return 0, c.readErr
	}
	return 0, errVerifWrite
}

func (c *verifDeadlineConn) Write(p []byte) (int, error) {
	c.writes++
	sym.Assert(c.writeDeadline.Equal(c.wantWrite), "a write to the upstream runs under the write deadline given for this operation")
	return len(p), nil
}
func (c *verifDeadlineConn) Close() error         { return nil }
func (c *verifDeadlineConn) LocalAddr() net.Addr  { return nil }
func (c *verifDeadlineConn) RemoteAddr() net.Addr { return nil }
func (c *verifDeadlineConn) SetDeadline(t time.Time) error {
	c.readDeadline, c.writeDeadline = t, t
	return nil
}
func (c *verifDeadlineConn) SetReadDeadline(t time.Time) error {
	if c.failSet {
		return errVerifWrite
	}
	c.readDeadline = t
	return nil
}
func (c *verifDeadlineConn) SetWriteDeadline(t time.Time) error {
	if c.failSet {
		return errVerifWrite
	}
	c.writeDeadline = t
	return nil
}

var verifCurConn *verifDeadlineConn

// verifStubDecode models (*msgpack.Decoder).Decode as far as this harness needs it: it reads from the socket.
func verifStubDecode(d *msgpack.Decoder, v ...interface{}) error {
	_, err := verifCurConn.Read(make([]byte, 1))
	return err
}

// VerifC02_ConnectionDeadlines: a symbolic sequence of three operations (send a
// chunk, ping, read an ACK) with symbolic deadlines on one connection: each
// socket write / read happens under exactly the deadline passed for that
// operation (a deadline of another operation, or of the other direction, left
// in place would let a hung upstream block the client for ever); a failing
// Set*Deadline is reported and nothing is written or read.
//
//verif:native off
//verif:stub (*github.com/vmihailenco/msgpack/v4.Decoder).Decode verifStubDecode
//verif:reach done
func VerifC02_ConnectionDeadlines() {
	conn := &verifDeadlineConn{}
	verifCurConn = conn
	internalPingMessage = []byte{0x93, 0xa1, 'p', 0x90, 0x80} // the real one is built with the reflection-based encoder at package init
	fconn := &forwardConnection{logger: logger.Root(), socket: conn}
	for i := 0; i < 3; i++ {
		d := time.Unix(int64(sym.IntRange("deadline", 1, 1000000)), 0)
		conn.failSet = sym.Bool("setDeadlineFails")
		reads, writes := conn.reads, conn.writes
		var err error
		switch sym.Choice("op", 3) {
		case 0:
			conn.wantWrite = d
			err = fconn.SendChunk(base.LogChunk{ID: "c", Data: []byte{1, 2, 3}}, d)
			sym.Assert(conn.failSet || (err == nil && conn.writes > writes), "the chunk is written")
		case 1:
			conn.wantWrite = d
			err = fconn.SendPing(d)
			sym.Assert(conn.failSet || (err == nil && conn.writes > writes), "the ping is written")
		case 2:
			conn.wantRead = d
			// no ACK ever arrives on this connection: the read ends with a timeout / reset, or with EOF because the
			// upstream closed the connection (restart, idle close) after it had received the chunk
			conn.readErr = []error{nil, io.EOF, io.ErrUnexpectedEOF}[sym.Choice("readEndsWith", 3)]
			var ack string
			ack, err = fconn.ReadChunkAck(d)
			sym.Assert(conn.failSet || conn.reads > reads, "the ACK is read from the socket")
			sym.Assert(err != nil && ack == "", "a read that ends without an ACK - the upstream closing the connection included - is an error, never an (empty, positional) acknowledgement")
		}
		if conn.failSet {
			sym.Assert(err != nil && conn.reads == reads && conn.writes == writes, "a deadline that cannot be set is reported and the operation is not attempted")
		}
	}
	sym.Reach("done")
}

// ---- the connection leaf: Close aborts the operation in progress ----
// The client's stop path relies on it: the stop request closes the active
// connection so that a send blocked mid-write or an ACK read from a silent
// upstream returns at once instead of at its deadline (minutes).

type verifSilentConn struct {
	verifDeadlineConn
	closed   chan struct{}
	isClosed bool
}

func (c *verifSilentConn) block(deadline time.Time) error {
	wait := time.Until(deadline)
	if deadline.IsZero() {
		wait = time.Hour
	}
	select {
	case <-c.closed:
		return errors.New("use of closed network connection (scripted)")
	case <-time.After(wait):
		return errors.New("i/o timeout (scripted)")
	}
}
func (c *verifSilentConn) Read(p []byte) (int, error)  { return 0, c.block(c.readDeadline) }
func (c *verifSilentConn) Write(p []byte) (int, error) { return 0, c.block(c.writeDeadline) }
func (c *verifSilentConn) Close() error {
	if !c.isClosed {
		c.isClosed = true
		close(c.closed)
	}
	return nil
}

var verifCurSilent *verifSilentConn

func verifStubDecodeSilent(d *msgpack.Decoder, v ...interface{}) error {
	_, err := verifCurSilent.Read(make([]byte, 1))
	return err
}

// VerifC18_CloseUnblocksPendingOperation: one operation (ACK read, chunk send,
// ping - symbolic) hangs on a silent upstream under a deadline of 10 s to 2
// min; after 1 s another goroutine calls Close (what the stop request does):
// Close returns at once and the hung operation returns at once with an error -
// neither waits for the deadline.
//
//verif:native off
//verif:preempt 1
//verif:clock virtual
//verif:stub (*github.com/vmihailenco/msgpack/v4.Decoder).Decode verifStubDecodeSilent
//verif:reach done
func VerifC18_CloseUnblocksPendingOperation() {
	conn := &verifSilentConn{closed: make(chan struct{})}
	verifCurSilent = conn
	internalPingMessage = []byte{0x93, 0xa1, 'p', 0x90, 0x80}
	fconn := &forwardConnection{logger: logger.Root(), socket: conn}
	deadline := time.Now().Add([]time.Duration{10 * time.Second, 120 * time.Second}[sym.Choice("deadline", 2)])
	op := sym.Choice("op", 3)
	finished := make(chan error, 1)
	go func() {
		var err error
		switch op {
		case 0:
			_, err = fconn.ReadChunkAck(deadline)
		case 1:
			err = fconn.SendChunk(base.LogChunk{ID: "c", Data: []byte{1, 2, 3}}, deadline)
		case 2:
			err = fconn.SendPing(deadline)
		}
		finished <- err
	}()
	time.Sleep(time.Second) // the operation is hanging now
	t0 := sym.VirtualNow()
	fconn.Close()
	sym.Assert(sym.VirtualNow()-t0 < int(time.Second), "Close returns at once while an operation is hanging on the connection")
	err := <-finished
	sym.Assert(sym.VirtualNow()-t0 < int(time.Second), "closing the connection aborts the hanging operation at once, not at its deadline")
	sym.Assert(err != nil, "the aborted operation reports an error")
	sym.Reach("done")
}

// VerifC02_CloseUnblocksPendingOperation: the same leaf read for C02 (the scripted
// connection of the client scenario assumes exactly this contract of Close).
//
//verif:native off
//verif:preempt 1
//verif:clock virtual
//verif:stub (*github.com/vmihailenco/msgpack/v4.Decoder).Decode verifStubDecodeSilent
//verif:reach done
func VerifC02_CloseUnblocksPendingOperation() { VerifC18_CloseUnblocksPendingOperation() }
