package fluentdforward

// C02 — the transmission leaf: writeAll (under SendChunk and SendPing) puts every byte of the chunk
// on the wire exactly once and in order, for every pattern of short writes the
// socket may make, and report the first error.

import (
	"errors"

	"github.com/relex/slog-agent/zz_verif/sym"
)

type verifShortWriter struct {
	wire   []byte
	calls  int
	failAt int
}

var errVerifWrite = errors.New("scripted write error")

// Write accepts an arbitrary non-empty prefix (io.Writer contract: n < len(p) only with an error;
// net.Conn.Write loops internally, but TLS and deadlines may still return short counts with an error).
func (w *verifShortWriter) Write(p []byte) (int, error) {
	w.calls++
	if w.calls == w.failAt {
		n := sym.IntRange("partial", 0, len(p))
		w.wire = append(w.wire, p[:n]...)
		return n, errVerifWrite
	}
	n := sym.IntRange("accepted", 1, len(p))
	w.wire = append(w.wire, p[:n]...)
	return n, nil
}

// VerifC02_WriteAllShortWrites: writeAll over a writer that accepts an arbitrary
// non-empty prefix per call and may fail at the k-th call.
//
//verif:reach complete failed
//verif:unwind 12
func VerifC02_WriteAllShortWrites() {
	n := sym.Choice("len", 6)
	data := sym.Bytes("data", n, n)
	w := &verifShortWriter{failAt: sym.Choice("failAt", 5)} // 0 = never
	if n == 0 {
		return // writeAll is never called with an empty chunk (C04: empty chunks are not forwarded)
	}
	err := writeAll(w, data)
	if err == nil {
		sym.Assert(len(w.wire) == n, "success means every byte was written")
		for i := 0; i < n; i++ {
			sym.Assert(w.wire[i] == data[i], "bytes are written once and in order")
		}
		sym.Assert(w.failAt == 0 || w.calls < w.failAt, "an error of the socket is never swallowed")
		sym.Reach("complete")
	} else {
		sym.Assert(err == errVerifWrite && w.calls == w.failAt, "the first socket error is reported and no further write is attempted")
		for i := 0; i < len(w.wire); i++ {
			sym.Assert(i < n && w.wire[i] == data[i], "what was written before the error is a prefix of the chunk")
		}
		sym.Reach("failed")
	}
}
