package fluentdforward

// C11 — chunks are complete, ordered, self-describing batches.
// The msgpack envelope (reflection-based encoder) and gzip are cut at their
// interfaces: the recording encoder returns the assembled payload unchanged, so
// the concatenation of payloads can be compared with the stream sequence.

import (
	"github.com/relex/fluentlib/protocol/forwardprotocol"
	"github.com/relex/gotils/logger"
	"github.com/relex/slog-agent/base"
	"github.com/relex/slog-agent/zz_verif/sym"
)

type verifEncoded struct {
	params encodeChunkParams
	tag    string
}

var verifEncodedLog []verifEncoded

func verifStubNewEncoder(tag string, asArray bool, msgpackBufferSize int) *chunkEncoder {
	return &chunkEncoder{tag: tag, asArray: asArray}
}

func verifStubEncodeChunk(enc *chunkEncoder, data []byte, params *encodeChunkParams) ([]byte, error) {
	verifEncodedLog = append(verifEncodedLog, verifEncoded{params: *params, tag: enc.tag})
	return append([]byte{}, data...), nil
}

type verifGhost struct {
	streams [][]byte
}

func (g *verifGhost) size() int {
	n := 0
	for _, s := range g.streams {
		n += len(s)
	}
	return n
}

// verifCheckChunk compares an emitted chunk with the streams written into it.
func verifCheckChunk(chunk *base.LogChunk, g *verifGhost, maxRecords, maxBytes int, seenIDs []string) {
	sym.Assert(chunk != nil, "a chunk holding records is emitted")
	if chunk == nil {
		return
	}
	for _, id := range seenIDs {
		sym.Assert(id != chunk.ID, "chunk ids are unique")
	}
	if len(g.streams) >= 2 {
		if maxRecords > 0 {
			sym.Assert(len(g.streams) <= maxRecords, "record limit respected unless a single record")
		}
		if maxBytes > 0 {
			sym.Assert(g.size() <= maxBytes, "size limit respected unless a single record")
		}
	}
	payload := chunk.Data
	if !sym.Symbolic() {
		// natively the real envelope wraps the payload: [tag, bin payload, {size, chunk}]
		r := &verifReader{b: chunk.Data}
		sym.Assert(len(chunk.Data) > 0 && r.u8() == 0x93, "chunk carries the pipeline's tag")
		r.str("the.tag", "chunk carries the pipeline's tag")
		n := 0
		switch r.u8() {
		case 0xc4:
			n = r.uN(1)
		case 0xc5:
			n = r.uN(2)
		case 0xc6:
			n = r.uN(4)
		default:
			sym.Assert(false, "payload length equals the streams written")
		}
		if r.p+n > len(chunk.Data) {
			sym.Assert(false, "payload length equals the streams written")
			return
		}
		payload = chunk.Data[r.p : r.p+n]
	} else {
		last := verifEncodedLog[len(verifEncodedLog)-1]
		sym.Assert(last.params.ID == chunk.ID, "chunk id equals the id given to the encoder (storage name)")
		sym.Assert(last.tag == "the.tag", "chunk carries the pipeline's tag")
		sym.Assert(last.params.NumRecords == len(g.streams), "record count equals contents")
		sym.Assert(last.params.NumBytes == g.size(), "byte count equals contents")
	}
	sym.Assert(len(payload) == g.size(), "payload length equals the streams written")
	off := 0
	for _, s := range g.streams {
		j := sym.IntRange("anyIndex", 0, 200)
		if j < len(s) && off+j < len(payload) {
			sym.Assert(payload[off+j] == s[j], "payload holds the streams in order, byte for byte")
		}
		off += len(s)
	}
}

// VerifC11_ForwardChunks: up to four operations (write a stream of symbolic
// length / timed flush) on the production chunk maker with symbolic limits.
//
//verif:stub github.com/relex/slog-agent/output/fluentdforward.newEncoder verifStubNewEncoder
//verif:stub (*github.com/relex/slog-agent/output/fluentdforward.chunkEncoder).EncodeChunk verifStubEncodeChunk
//verif:solver cvc5-int
//verif:reach rolled-over flushed done
//verif:paths 50000
func VerifC11_ForwardChunks() {
	defer func(a, b int) { chunkMaxSizeBytes, chunkMaxRecords = a, b }(chunkMaxSizeBytes, chunkMaxRecords)
	verifEncodedLog = nil
	chunkMaxSizeBytes = sym.IntRange("maxBytes", 0, 90)
	chunkMaxRecords = sym.Choice("maxRecords", 3)
	maxBytes, maxRecords := chunkMaxSizeBytes, chunkMaxRecords
	cfg := &Config{MessageMode: forwardprotocol.ModePackedForward}
	maker := cfg.NewChunkMaker(logger.Root(), "the.tag")
	ops := 3 + sym.Tier()
	g := &verifGhost{}
	var ids []string
	emitted := 0
	total := 0
	for i := 0; i < ops; i++ {
		if sym.Choice("op", 2) == 0 {
			s := sym.BigBytes("stream", 1, 40)
			total += len(s)
			prev := maker.WriteStream(s)
			if prev != nil {
				verifCheckChunk(prev, g, maxRecords, maxBytes, ids)
				ids = append(ids, prev.ID)
				emitted += g.size()
				g = &verifGhost{}
				sym.Reach("rolled-over")
			}
			g.streams = append(g.streams, s)
		} else {
			c := maker.FlushBuffer()
			if len(g.streams) == 0 {
				sym.Assert(c == nil, "flushing an empty packer emits nothing")
			} else {
				verifCheckChunk(c, g, maxRecords, maxBytes, ids)
				if c != nil {
					ids = append(ids, c.ID)
				}
				emitted += g.size()
				g = &verifGhost{}
				sym.Reach("flushed")
			}
		}
	}
	if c := maker.FlushBuffer(); len(g.streams) > 0 {
		verifCheckChunk(c, g, maxRecords, maxBytes, ids)
		emitted += g.size()
	} else {
		sym.Assert(c == nil, "nothing left")
	}
	sym.Assert(emitted == total, "every stream is in exactly one chunk")
	sym.Reach("done")
}
