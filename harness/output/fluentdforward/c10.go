package fluentdforward

// C10 — serialized events decode to exactly the record's visible fields.
// The oracle is an independent MessagePack reader written from the format
// specification (not from the encoder): it accepts any header class the format
// allows for a length and checks structure, lengths and bytes.

import (
	"github.com/relex/gotils/logger"
	"github.com/relex/slog-agent/base"
	"github.com/relex/slog-agent/base/bconfig"
	"github.com/relex/slog-agent/rewrite/rcopy"
	"github.com/relex/slog-agent/rewrite/rinline"
	"github.com/relex/slog-agent/rewrite/runescape"
	"github.com/relex/slog-agent/zz_verif/sym"
)

type verifReader struct {
	b []byte
	p int
}

func (r *verifReader) u8() int {
	sym.Assert(r.p < len(r.b), "reader stays inside the event")
	v := int(r.b[r.p])
	r.p++
	return v
}

func (r *verifReader) uN(n int) int {
	v := 0
	for i := 0; i < n; i++ {
		v = v<<8 | r.u8()
	}
	return v
}

// strLen reads a str header of any class and returns the length it carries.
func (r *verifReader) strLen() int {
	c := r.u8()
	switch {
	case c >= 0xa0 && c <= 0xbf:
		return c & 0x1f
	case c == 0xd9:
		return r.uN(1)
	case c == 0xda:
		return r.uN(2)
	case c == 0xdb:
		return r.uN(4)
	}
	sym.Assert(false, "string header is a legal str class")
	return 0
}

func (r *verifReader) mapLen() int {
	c := r.u8()
	switch {
	case c >= 0x80 && c <= 0x8f:
		return c & 0x0f
	case c == 0xde:
		return r.uN(2)
	case c == 0xdf:
		return r.uN(4)
	}
	sym.Assert(false, "map header is a legal map class")
	return 0
}

// str checks that the next item is a string with exactly the bytes of want.
// Long values are compared at one arbitrary index (standing for every index).
func (r *verifReader) str(want string, what string) {
	n := r.strLen()
	sym.Assert(n == len(want), what+": length field equals the value length")
	sym.Assert(r.p+n <= len(r.b), what+": value fits in the event")
	if len(want) <= 16 {
		for j := 0; j < len(want); j++ {
			sym.Assert(r.b[r.p+j] == want[j], what+": bytes equal")
		}
	} else {
		j := sym.IntRange("anyIndex", 0, 1<<22)
		if j < n {
			sym.Assert(r.b[r.p+j] == want[j], what+": bytes equal")
		}
	}
	// n == len(want) was just established; advancing by len(want) keeps the
	// position a plain sum of the value lengths
	_ = n
	r.p += len(want)
}

func (r *verifReader) header(sec uint32, nsec uint32) {
	sym.Assert(r.u8() == 0x92, "event is array(2)")
	sym.Assert(r.u8() == 0xd7 && r.u8() == 0x00, "EventTime is fixext8 type 0")
	sym.Assert(uint32(r.uN(4)) == sec, "seconds")
	sym.Assert(uint32(r.uN(4)) == nsec, "nanoseconds")
}

var verifNames9 = []string{"f0", "f1", "f2", "f3", "f4", "f5", "hid", "env1", "env2"}

func verifBigOrSmall(name string) string {
	switch sym.Choice(name+"Class", 4) {
	case 0:
		return ""
	case 1:
		n := sym.Choice(name+"Small", 3) + 14 // 14,15,16: the fixstr/str16 switch
		return sym.String(name, n, n)
	case 2:
		return string(sym.BigBytes(name+"Mid", 17, 300)) // around 255/256
	}
	return string(sym.BigBytes(name+"Big", 65530, 70000)) // around 65535/65536
}

// VerifC10_DecodeLengths9: schema of 9 fields (fixmap), three values of symbolic
// length on both sides of every header boundary, one hidden field, two
// environment fields (one of symbolic length, one empty).
//
//verif:reach decoded
//verif:paths 60000
func VerifC10_DecodeLengths9() {
	schema := base.MustNewLogSchema(verifNames9)
	cfg := SerializationConfig{EnvironmentFields: []string{"env1", "env2"}, HiddenFields: []string{"hid"}}
	s, err := NewEventSerializer(logger.Root(), schema, cfg)
	sym.Assume(err == nil)
	ns := sym.IntRange("unixNano", 1_500_000_000_000_000_000, 4_000_000_000_000_000_000)
	v0 := verifBigOrSmall("f0")
	v2 := "xy"
	if sym.Tier() > 0 {
		v2 = verifBigOrSmall("f2")
	}
	e1 := verifBigOrSmall("env1")
	hid := sym.String("hid", 2, 2)
	rec := schema.NewTestRecord2(sym.TimeFromUnixNano(ns), base.LogFields{v0, "", v2, "c", "", "", hid, e1, ""})
	out := s.SerializeRecord(rec)
	r := &verifReader{b: out}
	r.header(uint32(ns/1_000_000_000), uint32(ns%1_000_000_000))
	want := 2 // f3 + environment
	if len(v0) > 0 {
		want++
	}
	if len(v2) > 0 {
		want++
	}
	sym.Assert(r.mapLen() == want, "map count = non-empty visible fields + environment")
	if len(v0) > 0 {
		r.str("f0", "key f0")
		r.str(v0, "value f0")
	}
	if len(v2) > 0 {
		r.str("f2", "key f2")
		r.str(v2, "value f2")
	}
	r.str("f3", "key f3")
	r.str("c", "value f3")
	r.str("environment", "key environment")
	sym.Assert(r.mapLen() == 2, "environment map has exactly the configured keys")
	r.str("env1", "key env1")
	r.str(e1, "value env1")
	r.str("env2", "key env2")
	r.str("", "value env2 (present even when empty)")
	sym.Assert(r.p == len(out), "nothing follows the event")
	sym.Reach("decoded")
}

// verifDecodeWide: schema of n fields (n-1 plain + one environment field), the
// plain ones present by pattern, one of symbolic length.
func verifDecodeWide(n int) {
	all := []string{"a0", "a1", "a2", "a3", "a4", "a5", "a6", "a7", "a8", "a9", "b0", "b1", "b2", "b3", "b4", "b5"}
	plain := n - 1
	names := append(append([]string{}, all[:plain]...), "env")
	schema := base.MustNewLogSchema(names)
	s, err := NewEventSerializer(logger.Root(), schema, SerializationConfig{EnvironmentFields: []string{"env"}})
	sym.Assume(err == nil)
	fields := make(base.LogFields, n)
	present := 0
	pattern := sym.Choice("presentPattern", 4) // none / all / even / first half
	for i := 0; i < plain; i++ {
		if pattern == 1 || (pattern == 2 && i%2 == 0) || (pattern == 3 && i < 8) {
			fields[i] = "v"
			present++
		}
	}
	v5 := verifBigOrSmall("a5")
	if fields[5] != "" {
		fields[5] = v5
		if v5 == "" {
			present--
		}
	}
	rec := schema.NewTestRecord2(sym.TimeFromUnixNano(1_600_000_000_000_000_123), fields)
	out := s.SerializeRecord(rec)
	r := &verifReader{b: out}
	r.header(1_600_000_000, 123)
	sym.Assert(r.mapLen() == present+1, "root map count = non-empty fields + environment")
	for i := 0; i < plain; i++ {
		if fields[i] != "" {
			r.str(names[i], "key")
			r.str(fields[i], "value")
		}
	}
	r.str("environment", "key environment")
	sym.Assert(r.mapLen() == 1, "environment map size")
	r.str("env", "key env")
	r.str("", "empty env value")
	sym.Assert(r.p == len(out), "nothing follows the event")
	sym.Reach("decoded")
}

// VerifC10_DecodeLengths17: schema of 17 fields (map16 branch of the reserved header).
//
//verif:reach decoded
func VerifC10_DecodeLengths17() { verifDecodeWide(17) }

// VerifC10_DecodeLengthsAroundFixmap: schemas of 14, 15 and 16 fields: the
// boundary where the reserved root-map header switches from fixmap to map16.
//
//verif:reach decoded
func VerifC10_DecodeLengthsAroundFixmap() { verifDecodeWide(14 + sym.Choice("schemaFields", 3)) }

// verifUnescape is the reference for the syslog unescaper: \n \t \\ and friends.
func verifUnescape(s string) string {
	var out []byte
	for i := 0; i < len(s); i++ {
		if s[i] != '\\' || i == len(s)-1 {
			out = append(out, s[i])
			continue
		}
		i++
		switch s[i] {
		case 'b':
			out = append(out, '\b')
		case 'f':
			out = append(out, '\f')
		case 'n':
			out = append(out, '\n')
		case 'r':
			out = append(out, '\r')
		case 't':
			out = append(out, '\t')
		case '\\':
			out = append(out, '\\')
		default:
			out = append(out, '\\', s[i])
		}
	}
	return string(out)
}

// VerifC10_Rewriters: log = inline(class) + unescape: the value is
// "class=<class> " + unescaped log, with the length patched to the actual
// length; an already unescaped record is copied verbatim.
//
//verif:reach decoded
func VerifC10_Rewriters() {
	schema := base.MustNewLogSchema([]string{"class", "log", "env"})
	cfg := SerializationConfig{
		EnvironmentFields: []string{"env"},
		RewriteFields: map[string][]bconfig.LogRewriterConfigHolder{
			"log": {{Value: &rinline.Config{Field: "class"}}, {Value: &runescape.Config{}}},
		},
	}
	s, err := NewEventSerializer(logger.Root(), schema, cfg)
	sym.Assume(err == nil)
	nl := sym.Choice("logLen", 5) + 1
	log := sym.String("log", nl, nl)
	for i := 0; i < len(log); i++ {
		// case split on where the escape characters are; every other byte value stays symbolic
		sym.ConcretizeBool(log[i] == '\\')
	}
	nc := sym.Choice("classLen", 3)
	class := sym.String("class", nc, nc)
	unescaped := sym.Bool("alreadyUnescaped")
	rec := schema.NewTestRecord2(sym.TimeFromUnixNano(1_600_000_000_000_000_000), base.LogFields{class, log, ""})
	rec.Unescaped = unescaped
	out := s.SerializeRecord(rec)
	body := log
	if !unescaped {
		body = verifUnescape(log)
	}
	want := body
	if len(class) > 0 {
		want = "class=" + class + " " + body
	}
	r := &verifReader{b: out}
	r.header(1_600_000_000, 0)
	n := 2
	if len(class) > 0 {
		n = 3
	}
	sym.Assert(r.mapLen() == n, "map count")
	if len(class) > 0 {
		r.str("class", "key class")
		r.str(class, "value class")
	}
	r.str("log", "key log")
	r.str(want, "rewritten log")
	r.str("environment", "key environment")
	sym.Assert(r.mapLen() == 1, "environment map size")
	r.str("env", "key env")
	r.str("", "empty env value")
	sym.Assert(r.p == len(out), "nothing follows the event")
	sym.Observe("want", want)
	sym.Reach("decoded")
}

// VerifC10_RewriterLengths: inline + copy with a message of symbolic length on
// both sides of the 65535/65536 header boundary (before and after the prefix is
// added): the reserved header must be wide enough for the rewritten length.
//
//verif:reach decoded
func VerifC10_RewriterLengths() {
	schema := base.MustNewLogSchema([]string{"class", "log", "env"})
	cfg := SerializationConfig{
		EnvironmentFields: []string{"env"},
		RewriteFields: map[string][]bconfig.LogRewriterConfigHolder{
			"log": {{Value: &rinline.Config{Field: "class"}}, {Value: &rcopy.Config{}}},
		},
	}
	s, err := NewEventSerializer(logger.Root(), schema, cfg)
	sym.Assume(err == nil)
	nc := sym.Choice("classLen", 3)
	class := sym.String("class", nc, nc)
	log := string(sym.BigBytes("log", 65520, 65545))
	rec := schema.NewTestRecord2(sym.TimeFromUnixNano(1_600_000_000_000_000_000), base.LogFields{class, log, ""})
	out := s.SerializeRecord(rec)
	want := log
	if len(class) > 0 {
		want = "class=" + class + " " + log
	}
	r := &verifReader{b: out}
	r.header(1_600_000_000, 0)
	n := 2
	if len(class) > 0 {
		n = 3
	}
	sym.Assert(r.mapLen() == n, "map count")
	if len(class) > 0 {
		r.str("class", "key class")
		r.str(class, "value class")
	}
	r.str("log", "key log")
	r.str(want, "rewritten log")
	r.str("environment", "key environment")
	sym.Assert(r.mapLen() == 1, "environment map size")
	r.str("env", "key env")
	r.str("", "empty env value")
	sym.Assert(r.p == len(out), "nothing follows the event")
	sym.Reach("decoded")
}

// VerifC10_RewriterChainLengths: a chain of two inline rewriters and copy
// (class, task) with each inlined field empty or not and a message of symbolic
// length around the 65535/65536 header boundary: the reserved header is wide
// enough for the rewritten length whichever of the inlined fields is present.
//
//verif:reach decoded
func VerifC10_RewriterChainLengths() {
	schema := base.MustNewLogSchema([]string{"class", "task", "log", "env"})
	cfg := SerializationConfig{
		EnvironmentFields: []string{"env"},
		RewriteFields: map[string][]bconfig.LogRewriterConfigHolder{
			"log": {{Value: &rinline.Config{Field: "class"}}, {Value: &rinline.Config{Field: "task"}}, {Value: &rcopy.Config{}}},
		},
	}
	s, err := NewEventSerializer(logger.Root(), schema, cfg)
	sym.Assume(err == nil)
	class := []string{"", "C"}[sym.Choice("class", 2)]
	task := []string{"", "T1"}[sym.Choice("task", 2)]
	log := string(sym.BigBytes("log", 65520, 65545))
	rec := schema.NewTestRecord2(sym.TimeFromUnixNano(1_600_000_000_000_000_000), base.LogFields{class, task, log, ""})
	out := s.SerializeRecord(rec)
	want := log
	if len(task) > 0 {
		want = "task=" + task + " " + want
	}
	if len(class) > 0 {
		want = "class=" + class + " " + want
	}
	r := &verifReader{b: out}
	r.header(1_600_000_000, 0)
	n := 2
	if len(class) > 0 {
		n++
	}
	if len(task) > 0 {
		n++
	}
	sym.Assert(r.mapLen() == n, "map count")
	if len(class) > 0 {
		r.str("class", "key class")
		r.str(class, "value class")
	}
	if len(task) > 0 {
		r.str("task", "key task")
		r.str(task, "value task")
	}
	r.str("log", "key log")
	r.str(want, "rewritten log")
	r.str("environment", "key environment")
	sym.Assert(r.mapLen() == 1, "environment map size")
	r.str("env", "key env")
	r.str("", "empty env value")
	sym.Assert(r.p == len(out), "nothing follows the event")
	sym.Reach("decoded")
}

// VerifC07_EncodeAnyLengths: header fields are not length-limited by the
// parser (only the message is), and the listener hands over records of up to
// four times the nominal maximum: for every combination of field lengths the
// serializer must not panic; when the event does not fit its buffer the record
// is reported (empty stream), never written past the end.
//
//verif:reach fits too-large
//verif:solver cvc5-int
func VerifC07_EncodeAnyLengths() {
	schema := base.MustNewLogSchema([]string{"host", "app", "log", "env", "zone"})
	cfg := SerializationConfig{
		EnvironmentFields: []string{"env", "zone"},
		RewriteFields: map[string][]bconfig.LogRewriterConfigHolder{
			"log": {{Value: &rinline.Config{Field: "app"}}, {Value: &rcopy.Config{}}},
		},
	}
	s, err := NewEventSerializer(logger.Root(), schema, cfg)
	sym.Assume(err == nil)
	const maxRecord = 1024*1024 + 256
	host := string(sym.BigBytes("host", 0, 4*maxRecord))
	app := string(sym.BigBytes("app", 0, 4*maxRecord))
	log := string(sym.BigBytes("log", 0, 1024*1024))
	env := string(sym.BigBytes("env", 0, 4*maxRecord)) // environment fields come from header tokens too (host, app, ...)
	zone := "z"
	if sym.Tier() > 0 {
		zone = string(sym.BigBytes("zone", 0, 4*maxRecord))
	}
	sym.Assume(len(host)+len(app)+len(log)+len(env)+len(zone) <= 4*maxRecord)
	rec := schema.NewTestRecord2(sym.TimeFromUnixNano(1_600_000_000_000_000_000), base.LogFields{host, app, log, env, zone})
	out := s.SerializeRecord(rec) // obligation: no panic
	if len(out) > 0 {
		sym.Assert(len(out) >= len(host)+len(app)+len(log)+len(env)+len(zone), "a non-empty event holds all values")
		sym.Reach("fits")
	} else {
		sym.Assert(len(host)+2*len(app)+len(log)+len(env)+len(zone) > 2*maxRecord-200, "only events that cannot fit are given up")
		sym.Reach("too-large")
	}
}

// VerifC07_RewrittenLengthsKeepTheStreamFramed: the rewriter-length run read for
// C07: a message whose rewritten form crosses a header-width boundary must not
// produce an event the upstream cannot frame (such a chunk is refused and
// resent forever, with every record packed around it).
//
//verif:reach decoded
func VerifC07_RewrittenLengthsKeepTheStreamFramed() { VerifC10_RewriterLengths() }

// VerifC01_SerializedLengthsStayFramed: the serializer-length run read for C01
// ("never lost or altered"): a field value of a length at the header-width
// boundaries (15/16, 255/256, 65535/65536) keeps its bytes and does not
// mis-frame the records packed behind it in the chunk.
//
//verif:reach decoded
//verif:paths 60000
func VerifC01_SerializedLengthsStayFramed() { VerifC10_DecodeLengths9() }
