package datadog

// C02 / C01 — the Datadog (HTTP) client: the reply to the POST is the only
// acknowledgement this output has. SendChunk returning nil makes the client
// framework report the chunk delivered and delete its queue file.

import (
	"bytes"
	"errors"
	"io"
	"net/http"
	"time"

	"github.com/relex/gotils/logger"
	"github.com/relex/slog-agent/base"
	"github.com/relex/slog-agent/zz_verif/sym"
)

var verifHTTPStatus int
var verifHTTPFails bool
var verifHTTPBody []byte
var verifHTTPSent []byte

// verifStubHTTPDo stands for (*http.Client).Do: a transport error, or a final response of any status 200..599
// (1xx responses are consumed inside net/http and never returned as the final response of a POST; redirects that
// cannot be followed - 307/308 on a request without GetBody, any 3xx without Location - are returned as they are).
func verifStubHTTPDo(c *http.Client, req *http.Request) (*http.Response, error) {
	if req.Body != nil {
		verifHTTPSent, _ = io.ReadAll(req.Body)
	}
	if verifHTTPFails {
		return nil, errors.New("connection reset by peer (scripted)")
	}
	return &http.Response{StatusCode: verifHTTPStatus, Body: io.NopCloser(bytes.NewReader(verifHTTPBody))}, nil
}

// VerifC02_DatadogStatusIsTheAck: for every reply status 200..599, a transport
// error, and a chunk of 1..4 arbitrary bytes: the chunk is transmitted
// unchanged, and SendChunk reports success exactly when the upstream accepted
// the chunk (2xx); any other reply (redirects included) or a transport error
// is an error, so the chunk stays unacknowledged and is retransmitted.
//
//verif:native off
//verif:stub (*net/http.Client).Do verifStubHTTPDo
//verif:reach accepted refused failed
func VerifC02_DatadogStatusIsTheAck() {
	verifHTTPStatus = sym.IntRange("status", 200, 599)
	verifHTTPFails = sym.Bool("transportError")
	verifHTTPBody = []byte("{\"errors\":[]}")
	verifHTTPSent = nil
	n := sym.Choice("chunkLen", 4) + 1
	data := sym.Bytes("chunk", n, n)
	orig := append([]byte{}, data...)
	w := &clientWorker{logger: logger.Root(), client: &http.Client{}, request: &http.Request{Method: http.MethodPost, Header: http.Header{}}}
	err := w.SendChunk(base.LogChunk{ID: "c1", Data: data}, time.Time{})
	sym.Assert(bytes.Equal(verifHTTPSent, orig), "the request body is the chunk, byte for byte")
	sym.Assert(w.request.Body == nil, "the shared request does not keep the chunk after the call")
	switch {
	case verifHTTPFails:
		sym.Assert(err != nil, "a transport error is reported: the chunk stays unacknowledged")
		sym.Reach("failed")
	case verifHTTPStatus >= 200 && verifHTTPStatus <= 299:
		sym.Assert(err == nil, "a 2xx reply acknowledges the chunk")
		sym.Reach("accepted")
	default:
		sym.Assert(err != nil, "a reply other than 2xx (3xx redirects included) does not acknowledge the chunk")
		sym.Reach("refused")
	}
	ack, aerr := w.ReadChunkAck(time.Time{})
	sym.Assert(ack == "" && aerr == nil, "the positional ACK of the HTTP output never fails by itself")
}

// VerifC01_DatadogStatusIsTheAck: the same leaf read for C01 (a chunk the upstream did not accept is never confirmed).
//
//verif:native off
//verif:stub (*net/http.Client).Do verifStubHTTPDo
//verif:reach accepted refused failed
func VerifC01_DatadogStatusIsTheAck() { VerifC02_DatadogStatusIsTheAck() }
