package datadog

// C11 — Datadog chunks: a JSON array "[r1,r2,...]" of the records, within the limits.

import (
	"bytes"
	"compress/gzip"
	"io"

	"github.com/relex/gotils/logger"
	"github.com/relex/slog-agent/base"
	"github.com/relex/slog-agent/output/shared"
	"github.com/relex/slog-agent/zz_verif/sym"
)

type verifPassThrough struct{ w io.Writer }

func (p verifPassThrough) Write(b []byte) (int, error) { return p.w.Write(b) }
func (p verifPassThrough) Close() error                { return nil }

// verifStubGzip replaces the gzip writer by a pass-through (gzip itself is outside the claim).
func verifStubGzip(log logger.Logger, w io.Writer) io.WriteCloser { return verifPassThrough{w} }

func verifCheckArray(chunk *base.LogChunk, streams [][]byte, maxRecords, maxBytes int) {
	sym.Assert(chunk != nil, "a chunk holding records is emitted")
	if chunk == nil {
		return
	}
	size := 1 // "["
	for i, s := range streams {
		if i > 0 {
			size++ // ","
		}
		size += len(s)
	}
	size++ // "]"
	if len(streams) >= 2 {
		if maxRecords > 0 {
			sym.Assert(len(streams) <= maxRecords, "record limit respected unless a single record")
		}
		if maxBytes > 0 {
			sym.Assert(size <= maxBytes, "size limit respected unless a single record")
		}
	}
	d := chunk.Data
	if !sym.Symbolic() {
		// natively the payload is gzip-compressed (the engine replaces the gzip writer by a pass-through)
		zr, err := gzip.NewReader(bytes.NewReader(chunk.Data))
		sym.Assert(err == nil, "payload is a JSON array")
		if err != nil {
			return
		}
		d, err = io.ReadAll(zr)
		sym.Assert(err == nil, "payload is a JSON array")
		if err != nil {
			return
		}
	}
	sym.Assert(len(d) == size, "payload length = brackets + records + separators")
	sym.Assert(d[0] == '[' && d[len(d)-1] == ']', "payload is a JSON array")
	off := 1
	for i, s := range streams {
		if i > 0 {
			sym.Assert(d[off] == ',', "records separated by commas")
			off++
		}
		j := sym.IntRange("anyIndex", 0, 200)
		if j < len(s) {
			sym.Assert(d[off+j] == s[j], "records in order, byte for byte")
		}
		off += len(s)
	}
}

//verif:stub github.com/relex/slog-agent/output/shared.InitGzipCompessor verifStubGzip
//verif:solver cvc5-int
//verif:reach rolled-over flushed done
//verif:paths 50000
func VerifC11_DatadogChunks() {
	maxBytes := sym.IntRange("maxBytes", 0, 90)
	maxRecords := sym.Choice("maxRecords", 3)
	factory := shared.NewChunkFactory(".dd", 64, buildNewChunkFunc(logger.Root(), maxRecords, maxBytes))
	maker := shared.NewMessagePacker(logger.Root(), factory)
	ops := 3 + sym.Tier()
	// emitted chunks are held (as the buffer and the client do) and checked at the end:
	// a chunk must not change when later chunks are produced
	type emitted struct {
		chunk   *base.LogChunk
		streams [][]byte
	}
	var held []emitted
	var cur [][]byte
	for i := 0; i < ops; i++ {
		if sym.Choice("op", 2) == 0 {
			s := sym.BigBytes("stream", 1, 40)
			if prev := maker.WriteStream(s); prev != nil {
				held = append(held, emitted{prev, cur})
				cur = nil
				sym.Reach("rolled-over")
			}
			cur = append(cur, s)
		} else {
			c := maker.FlushBuffer()
			if len(cur) == 0 {
				sym.Assert(c == nil, "flushing an empty packer emits nothing")
			} else {
				held = append(held, emitted{c, cur})
				cur = nil
				sym.Reach("flushed")
			}
		}
	}
	if c := maker.FlushBuffer(); len(cur) > 0 {
		held = append(held, emitted{c, cur})
	}
	for _, e := range held {
		verifCheckArray(e.chunk, e.streams, maxRecords, maxBytes)
	}
	sym.Reach("done")
}

// VerifC12_HeldChunksStayIntact: chunks that are still held (queued, being
// retried) when later records are packed must not change: no byte of a later
// record appears in an earlier chunk (the C11 run read for C12).
//
//verif:stub github.com/relex/slog-agent/output/shared.InitGzipCompessor verifStubGzip
//verif:solver cvc5-int
//verif:reach rolled-over flushed done
//verif:paths 50000
func VerifC12_HeldChunksStayIntact() { VerifC11_DatadogChunks() }
