// Package fakes holds the harness-side fakes shared by several properties.
package fakes

import (
	"strconv"
	"time"
	"unicode/utf8"

	"github.com/prometheus/client_golang/prometheus"
	dto "github.com/prometheus/client_model/go"
	"github.com/relex/gotils/promexporter/promext"
	"github.com/relex/gotils/promexporter/promreg"
	"github.com/relex/slog-agent/zz_verif/sym"
)

// Counter is a plain counter implementing promext.RWCounter.
type Counter struct {
	Name string
	V    uint64
}

func (c *Counter) Get() uint64                      { return c.V }
func (c *Counter) Inc() uint64                      { c.V++; return c.V }
func (c *Counter) Add(d uint64) uint64              { c.V += d; return c.V }
func (c *Counter) Desc() *prometheus.Desc           { return nil }
func (c *Counter) Write(*dto.Metric) error          { return nil }
func (c *Counter) Describe(chan<- *prometheus.Desc) {}
func (c *Counter) Collect(chan<- prometheus.Metric) {}

// Gauge is a plain gauge implementing promext.RWGauge.
type Gauge struct {
	Name string
	V    int64
}

func (g *Gauge) Get() int64                       { return g.V }
func (g *Gauge) Set(v int64)                      { g.V = v }
func (g *Gauge) Inc() int64                       { g.V++; return g.V }
func (g *Gauge) Dec() int64                       { g.V--; return g.V }
func (g *Gauge) Add(d int64) int64                { g.V += d; return g.V }
func (g *Gauge) Sub(d int64) int64                { g.V -= d; return g.V }
func (g *Gauge) Desc() *prometheus.Desc           { return nil }
func (g *Gauge) Write(*dto.Metric) error          { return nil }
func (g *Gauge) Describe(chan<- *prometheus.Desc) {}
func (g *Gauge) Collect(chan<- prometheus.Metric) {}

// WaitForZero gives other goroutines a chance to run and reports whether the
// gauge is zero (the timeout is a nondeterministic event for the scheduler).
func (g *Gauge) WaitForZero(timeout time.Duration) bool {
	for i := 0; i < 4 && g.V != 0; i++ {
		sym.Yield()
	}
	return g.V == 0
}

type registry struct {
	counters  map[string]*Counter
	gauges    map[string]*Gauge
	order     []string
	gaugeVecs map[string]*promext.RWGaugeVec
}

// Metrics is a promreg.MetricCreator that keeps everything in plain maps.
// Contract kept from client_golang: creating a metric whose label values are
// not valid UTF-8 panics.
type Metrics struct {
	reg    *registry
	prefix string
	labels []string
}

func NewMetrics() *Metrics {
	return &Metrics{reg: &registry{counters: map[string]*Counter{}, gauges: map[string]*Gauge{}, gaugeVecs: map[string]*promext.RWGaugeVec{}}}
}

var _ promreg.MetricCreator = (*Metrics)(nil)

func (m *Metrics) key(name string, values []string) string {
	all := append(append([]string{}, m.labels...), values...)
	for _, v := range all {
		if !utf8.ValidString(v) {
			panic("prometheus: label value is not valid UTF-8")
		}
	}
	return m.prefix + name + joinValues(all)
}

// joinValues is an injective rendering of a label tuple (length-prefixed).
func joinValues(values []string) string {
	out := "{"
	for _, v := range values {
		out += strconv.Itoa(len(v)) + ":" + v
	}
	return out + "}"
}

func (m *Metrics) String() string { return m.prefix }

func (m *Metrics) AddOrGetPrefix(prefix string, labelNames []string, labelValues []string) promreg.MetricCreator {
	if len(labelNames) != len(labelValues) {
		panic("inconsistent label cardinality")
	}
	return &Metrics{reg: m.reg, prefix: m.prefix + prefix, labels: append(append([]string{}, m.labels...), labelValues...)}
}

func (m *Metrics) AddOrGetCounter(name string, help string, labelNames []string, labelValues []string) promext.RWCounter {
	return m.counter(name, labelNames, labelValues)
}

func (m *Metrics) counter(name string, labelNames []string, labelValues []string) *Counter {
	if len(labelNames) != len(labelValues) {
		panic("inconsistent label cardinality")
	}
	k := m.key(name, labelValues)
	if c, ok := m.reg.counters[k]; ok {
		return c
	}
	c := &Counter{Name: k}
	m.reg.counters[k] = c
	m.reg.order = append(m.reg.order, k)
	return c
}

func (m *Metrics) AddOrGetLazyCounter(name string, help string, labelNames []string, labelValues []string) promext.LazyRWCounter {
	return m.counter(name, labelNames, labelValues)
}

func (m *Metrics) AddOrGetGauge(name string, help string, labelNames []string, labelValues []string) promext.RWGauge {
	if len(labelNames) != len(labelValues) {
		panic("inconsistent label cardinality")
	}
	k := m.key(name, labelValues)
	if g, ok := m.reg.gauges[k]; ok {
		return g
	}
	g := &Gauge{Name: k}
	m.reg.gauges[k] = g
	return g
}

func curryLabels(names, leftmost []string) prometheus.Labels {
	if len(leftmost) > len(names) {
		panic("inconsistent label cardinality")
	}
	l := prometheus.Labels{}
	for i, v := range leftmost {
		l[names[i]] = v
	}
	return l
}

func (m *Metrics) AddOrGetCounterVec(name string, help string, labelNames []string, leftmost []string) *promext.RWCounterVec {
	m.key(name, leftmost)
	v := promext.NewRWCounterVec(prometheus.CounterOpts{Name: "c_" + name}, labelNames)
	if len(leftmost) > 0 {
		return v.MustCurryWith(curryLabels(labelNames, leftmost))
	}
	return v
}

func (m *Metrics) AddOrGetLazyCounterVec(name string, help string, labelNames []string, leftmost []string) *promext.LazyRWCounterVec {
	m.key(name, leftmost)
	v := promext.NewLazyRWCounterVec(prometheus.CounterOpts{Name: "l_" + name}, labelNames)
	if len(leftmost) > 0 {
		return v.MustCurryWith(curryLabels(labelNames, leftmost))
	}
	return v
}

func (m *Metrics) AddOrGetGaugeVec(name string, help string, labelNames []string, leftmost []string) *promext.RWGaugeVec {
	m.key(name, leftmost)
	v := promext.NewRWGaugeVec(prometheus.GaugeOpts{Name: "g_" + name}, labelNames)
	if len(leftmost) > 0 {
		v = v.MustCurryWith(curryLabels(labelNames, leftmost))
	}
	m.reg.gaugeVecs[m.prefix+name] = v
	return v
}

// GaugeVecValue reads a gauge of a gauge vector created through this fake.
func (m *Metrics) GaugeVecValue(fullName string, labelValues ...string) int64 {
	v, ok := m.reg.gaugeVecs[fullName]
	if !ok {
		return 0
	}
	return v.WithLabelValues(labelValues...).Get()
}

// CounterValue returns the value of the counter whose full name (prefix+name)
// matches and whose label values are exactly values.
func (m *Metrics) CounterValue(fullName string, values ...string) uint64 {
	k := fullName + joinValues(values)
	if c, ok := m.reg.counters[k]; ok {
		return c.V
	}
	return 0
}

func (m *Metrics) GaugeValue(fullName string, values ...string) int64 {
	k := fullName + joinValues(values)
	if g, ok := m.reg.gauges[k]; ok {
		return g.V
	}
	return 0
}

// NumCounters reports how many distinct counters exist.
func (m *Metrics) NumCounters() int { return len(m.reg.counters) }

// StubMD5 is an injective stand-in for util.MD5ToHexdigest on contents of up to
// 8 bytes (the hash is assumed collision-free): 32 characters whose tail is the
// hex rendering of the content, left-padded with 'g'.
func StubMD5(content string) string {
	const hexd = "0123456789abcdef"
	out := []byte("gggggggggggggggggggggggggggggggg")
	if len(content) > 8 {
		panic("fakes.StubMD5 supports up to 8 bytes")
	}
	p := len(out) - 2*len(content)
	for i := 0; i < len(content); i++ {
		out[p+2*i], out[p+2*i+1] = hexd[content[i]>>4], hexd[content[i]&15]
	}
	return string(out)
}

// IsNetworkError stands in for util.IsNetworkError (errors.As needs reflection): harness errors are not network errors.
func IsNetworkError(err error) bool { return false }

// PromCounter is a plain prometheus.Counter.
type PromCounter struct{ N float64 }

func (c *PromCounter) Inc()                              { c.N++ }
func (c *PromCounter) Add(v float64)                     { c.N += v }
func (c *PromCounter) Desc() *prometheus.Desc            { return nil }
func (c *PromCounter) Write(*dto.Metric) error           { return nil }
func (c *PromCounter) Describe(chan<- *prometheus.Desc)  {}
func (c *PromCounter) Collect(chan<- prometheus.Metric)  {}
