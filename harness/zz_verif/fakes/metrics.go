// Package fakes holds the harness-side fakes shared by several properties.
package fakes

import (
	"time"
	"unicode/utf8"

	"github.com/prometheus/client_golang/prometheus"
	dto "github.com/prometheus/client_model/go"
	"github.com/relex/gotils/promexporter/promext"
	"github.com/relex/gotils/promexporter/promreg"
	"github.com/relex/slog-agent/zz_verif/sym"
)

// Counter is a plain counter implementing promext.RWCounter.
type Counter struct {
	Name   string
	Labels []string // label values, kept by reference as client_golang does (a value that aliases a reused buffer changes)
	V      uint64
}

func (c *Counter) Get() uint64                      { return c.V }
func (c *Counter) Inc() uint64                      { c.V++; return c.V }
func (c *Counter) Add(d uint64) uint64              { c.V += d; return c.V }
func (c *Counter) Desc() *prometheus.Desc           { return nil }
func (c *Counter) Write(*dto.Metric) error          { return nil }
func (c *Counter) Describe(chan<- *prometheus.Desc) {}
func (c *Counter) Collect(chan<- prometheus.Metric) {}

// Gauge is a plain gauge implementing promext.RWGauge.
type Gauge struct {
	Name   string
	Labels []string
	V      int64
}

func (g *Gauge) Get() int64                       { return g.V }
func (g *Gauge) Set(v int64)                      { g.V = v }
func (g *Gauge) Inc() int64                       { g.V++; return g.V }
func (g *Gauge) Dec() int64                       { g.V--; return g.V }
func (g *Gauge) Add(d int64) int64                { g.V += d; return g.V }
func (g *Gauge) Sub(d int64) int64                { g.V -= d; return g.V }
func (g *Gauge) Desc() *prometheus.Desc           { return nil }
func (g *Gauge) Write(*dto.Metric) error          { return nil }
func (g *Gauge) Describe(chan<- *prometheus.Desc) {}
func (g *Gauge) Collect(chan<- prometheus.Metric) {}

// WaitForZero gives other goroutines a chance to run and reports whether the
// gauge is zero (the timeout is a nondeterministic event for the scheduler).
func (g *Gauge) WaitForZero(timeout time.Duration) bool {
	for i := 0; i < 4 && g.V != 0; i++ {
		sym.Yield()
	}
	return g.V == 0
}

type registry struct {
	counters  []*Counter
	gauges    []*Gauge
	gaugeVecs map[string]*promext.RWGaugeVec
}

func sameLabels(a, b []string) bool {
	if len(a) != len(b) {
		return false
	}
	for i := range a {
		if a[i] != b[i] {
			return false
		}
	}
	return true
}

// Metrics is a promreg.MetricCreator that keeps everything in plain maps.
// Contract kept from client_golang: creating a metric whose label values are
// not valid UTF-8 panics.
type Metrics struct {
	reg    *registry
	prefix string
	labels []string
}

func NewMetrics() *Metrics {
	return &Metrics{reg: &registry{gaugeVecs: map[string]*promext.RWGaugeVec{}}}
}

var _ promreg.MetricCreator = (*Metrics)(nil)

// all returns the creator's fixed label values followed by the given ones, after
// checking what client_golang checks: every label value must be valid UTF-8.
func (m *Metrics) all(values []string) []string {
	all := append(append([]string{}, m.labels...), values...)
	for _, v := range all {
		if !utf8.ValidString(v) {
			panic("prometheus: label value is not valid UTF-8")
		}
	}
	return all
}

func (m *Metrics) key(name string, values []string) string {
	m.all(values)
	return m.prefix + name
}

func (m *Metrics) String() string { return m.prefix }

func (m *Metrics) AddOrGetPrefix(prefix string, labelNames []string, labelValues []string) promreg.MetricCreator {
	if len(labelNames) != len(labelValues) {
		panic("inconsistent label cardinality")
	}
	return &Metrics{reg: m.reg, prefix: m.prefix + prefix, labels: append(append([]string{}, m.labels...), labelValues...)}
}

func (m *Metrics) AddOrGetCounter(name string, help string, labelNames []string, labelValues []string) promext.RWCounter {
	return m.counter(name, labelNames, labelValues)
}

func (m *Metrics) counter(name string, labelNames []string, labelValues []string) *Counter {
	if len(labelNames) != len(labelValues) {
		panic("inconsistent label cardinality")
	}
	labels := m.all(labelValues)
	full := m.prefix + name
	for _, c := range m.reg.counters {
		if c.Name == full && sameLabels(c.Labels, labels) {
			return c
		}
	}
	c := &Counter{Name: full, Labels: labels}
	m.reg.counters = append(m.reg.counters, c)
	return c
}

func (m *Metrics) AddOrGetLazyCounter(name string, help string, labelNames []string, labelValues []string) promext.LazyRWCounter {
	return m.counter(name, labelNames, labelValues)
}

func (m *Metrics) AddOrGetGauge(name string, help string, labelNames []string, labelValues []string) promext.RWGauge {
	if len(labelNames) != len(labelValues) {
		panic("inconsistent label cardinality")
	}
	labels := m.all(labelValues)
	full := m.prefix + name
	for _, g := range m.reg.gauges {
		if g.Name == full && sameLabels(g.Labels, labels) {
			return g
		}
	}
	g := &Gauge{Name: full, Labels: labels}
	m.reg.gauges = append(m.reg.gauges, g)
	return g
}

func curryLabels(names, leftmost []string) prometheus.Labels {
	if len(leftmost) > len(names) {
		panic("inconsistent label cardinality")
	}
	l := prometheus.Labels{}
	for i, v := range leftmost {
		l[names[i]] = v
	}
	return l
}

func (m *Metrics) AddOrGetCounterVec(name string, help string, labelNames []string, leftmost []string) *promext.RWCounterVec {
	m.key(name, leftmost)
	v := promext.NewRWCounterVec(prometheus.CounterOpts{Name: "c_" + name}, labelNames)
	if len(leftmost) > 0 {
		return v.MustCurryWith(curryLabels(labelNames, leftmost))
	}
	return v
}

func (m *Metrics) AddOrGetLazyCounterVec(name string, help string, labelNames []string, leftmost []string) *promext.LazyRWCounterVec {
	m.key(name, leftmost)
	v := promext.NewLazyRWCounterVec(prometheus.CounterOpts{Name: "l_" + name}, labelNames)
	if len(leftmost) > 0 {
		return v.MustCurryWith(curryLabels(labelNames, leftmost))
	}
	return v
}

func (m *Metrics) AddOrGetGaugeVec(name string, help string, labelNames []string, leftmost []string) *promext.RWGaugeVec {
	m.key(name, leftmost)
	v := promext.NewRWGaugeVec(prometheus.GaugeOpts{Name: "g_" + name}, labelNames)
	if len(leftmost) > 0 {
		v = v.MustCurryWith(curryLabels(labelNames, leftmost))
	}
	m.reg.gaugeVecs[m.prefix+name] = v
	return v
}

// GaugeVecValue reads a gauge of a gauge vector created through this fake.
func (m *Metrics) GaugeVecValue(fullName string, labelValues ...string) int64 {
	v, ok := m.reg.gaugeVecs[fullName]
	if !ok {
		return 0
	}
	return v.WithLabelValues(labelValues...).Get()
}

// CounterValue returns the sum of the counters whose full name (prefix+name)
// matches and whose label values are - now - exactly values.
func (m *Metrics) CounterValue(fullName string, values ...string) uint64 {
	var sum uint64
	for _, c := range m.reg.counters {
		if c.Name == fullName && sameLabels(c.Labels, values) {
			sum += c.V
		}
	}
	return sum
}

func (m *Metrics) GaugeValue(fullName string, values ...string) int64 {
	var sum int64
	for _, g := range m.reg.gauges {
		if g.Name == fullName && sameLabels(g.Labels, values) {
			sum += g.V
		}
	}
	return sum
}

// NumCounters reports how many distinct counters exist.
func (m *Metrics) NumCounters() int { return len(m.reg.counters) }

// StubMD5 is an injective stand-in for util.MD5ToHexdigest on contents of up to
// 8 bytes (the hash is assumed collision-free): 32 characters whose tail is the
// hex rendering of the content, left-padded with 'g'.
func StubMD5(content string) string {
	const hexd = "0123456789abcdef"
	out := []byte("gggggggggggggggggggggggggggggggg")
	if len(content) > 8 {
		panic("fakes.StubMD5 supports up to 8 bytes")
	}
	p := len(out) - 2*len(content)
	for i := 0; i < len(content); i++ {
		out[p+2*i], out[p+2*i+1] = hexd[content[i]>>4], hexd[content[i]&15]
	}
	return string(out)
}

// IsNetworkError stands in for util.IsNetworkError (errors.As needs reflection): harness errors are not network errors.
func IsNetworkError(err error) bool { return false }

// PromCounter is a plain prometheus.Counter.
type PromCounter struct{ N float64 }

func (c *PromCounter) Inc()                             { c.N++ }
func (c *PromCounter) Add(v float64)                    { c.N += v }
func (c *PromCounter) Desc() *prometheus.Desc           { return nil }
func (c *PromCounter) Write(*dto.Metric) error          { return nil }
func (c *PromCounter) Describe(chan<- *prometheus.Desc) {}
func (c *PromCounter) Collect(chan<- prometheus.Metric) {}
