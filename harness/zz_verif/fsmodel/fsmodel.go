// Package fsmodel is the in-harness file-system model that replaces the
// syscalls used by util/files.go and buffer/hybridbuffer under the symbolic
// engine (harness/stubs.txt). One directory, name -> bytes. Contract kept from
// POSIX: write(2) may store fewer bytes than asked without an error (short
// write), any call may fail, O_TRUNC truncates at open, a crash keeps whatever
// was stored so far. Faults are decided by hooks the harness installs.
package fsmodel

import (
	"errors"
	"os"
	"sort"

	"golang.org/x/sys/unix"
)

type handle struct {
	name string
	pos  int
}

// FS is one queue directory.
type FS struct {
	Files  map[string][]byte
	fds    map[int]*handle
	nextFd int
	NoDir  bool // the directory cannot be opened

	// OnWrite decides how many bytes of a write are stored and the error returned (nil hook: all, nil).
	OnWrite func(name string, n int) (int, error)
	// OnOpen / OnRead / OnStat / OnUnlink may return an error to inject a failure.
	OnOpen   func(name string, write bool) error
	OnRead   func(name string) error
	OnStat   func(name string) error
	OnUnlink func(name string) error
	// Trace of mutating operations, for assertions.
	Writes  []string
	Unlinks []string
}

// Cur is the file system seen by the code under test.
var Cur = New()

func New() *FS { return &FS{Files: map[string][]byte{}, fds: map[int]*handle{}, nextFd: 10} }

// Reset installs a fresh file system and returns it.
func Reset() *FS { Cur = New(); return Cur }

// Names returns the file names in sorted order.
func (fs *FS) Names() []string {
	out := make([]string, 0, len(fs.Files))
	for n := range fs.Files {
		out = append(out, n)
	}
	sort.Strings(out)
	return out
}

var errIO = errors.New("input/output error (injected)")
var errNoEnt = errors.New("no such file or directory")
var errBadF = errors.New("bad file descriptor")

func Openat(dirfd int, path string, flags int, mode uint32) (int, error) {
	fs := Cur
	write := flags&(unix.O_WRONLY|unix.O_RDWR) != 0
	if fs.OnOpen != nil {
		if err := fs.OnOpen(path, write); err != nil {
			return -1, err
		}
	}
	_, exists := fs.Files[path]
	if !exists {
		if flags&unix.O_CREAT == 0 {
			return -1, errNoEnt
		}
		fs.Files[path] = []byte{}
	} else if flags&unix.O_TRUNC != 0 {
		fs.Files[path] = []byte{}
	}
	fs.nextFd++
	fs.fds[fs.nextFd] = &handle{name: path}
	return fs.nextFd, nil
}

func Write(fd int, p []byte) (int, error) {
	fs := Cur
	h, ok := fs.fds[fd]
	if !ok {
		return -1, errBadF
	}
	n := len(p)
	var err error
	if fs.OnWrite != nil {
		n, err = fs.OnWrite(h.name, len(p))
		if n > len(p) {
			n = len(p)
		}
		if n < 0 {
			n = 0
		}
	}
	fs.Files[h.name] = append(fs.Files[h.name], p[:n]...)
	fs.Writes = append(fs.Writes, h.name)
	if err != nil {
		return -1, err
	}
	return n, nil
}

// Pwrite is the positional write: the bytes go to the given offset whatever was written before (bytes beyond the
// end extend the file, a gap is zero-filled); short writes and errors are decided by the same hook as Write.
func Pwrite(fd int, p []byte, off int64) (int, error) {
	fs := Cur
	h, ok := fs.fds[fd]
	if !ok {
		return -1, errBadF
	}
	n := len(p)
	var err error
	if fs.OnWrite != nil {
		n, err = fs.OnWrite(h.name, len(p))
		if n > len(p) {
			n = len(p)
		}
		if n < 0 {
			n = 0
		}
	}
	data := fs.Files[h.name]
	o := int(off)
	if o > len(data) {
		data = append(data, make([]byte, o-len(data))...)
	}
	if o+n <= len(data) {
		copy(data[o:o+n], p[:n])
	} else {
		data = append(data[:o:o], p[:n]...)
	}
	fs.Files[h.name] = data
	fs.Writes = append(fs.Writes, h.name)
	if err != nil {
		return -1, err
	}
	return n, nil
}

// Pread is the positional read.
func Pread(fd int, p []byte, off int64) (int, error) {
	fs := Cur
	h, ok := fs.fds[fd]
	if !ok {
		return -1, errBadF
	}
	if fs.OnRead != nil {
		if err := fs.OnRead(h.name); err != nil {
			return -1, err
		}
	}
	data := fs.Files[h.name]
	if int(off) >= len(data) {
		return 0, nil
	}
	return copy(p, data[int(off):]), nil
}

// Fsync / Fdatasync / Ftruncate: durability calls succeed; truncation cuts or zero-extends the file.
func Fsync(fd int) error {
	if _, ok := Cur.fds[fd]; !ok {
		return errBadF
	}
	return nil
}

func Ftruncate(fd int, length int64) error {
	fs := Cur
	h, ok := fs.fds[fd]
	if !ok {
		return errBadF
	}
	data := fs.Files[h.name]
	if int(length) <= len(data) {
		fs.Files[h.name] = data[:int(length):int(length)]
	} else {
		fs.Files[h.name] = append(data, make([]byte, int(length)-len(data))...)
	}
	return nil
}

// OpenDescriptors is the number of descriptors opened through Openat and not closed yet.
func (fs *FS) OpenDescriptors() int { return len(fs.fds) }

func Close(fd int) error {
	if _, ok := Cur.fds[fd]; !ok {
		return errBadF
	}
	delete(Cur.fds, fd)
	return nil
}

func Read(fd int, p []byte) (int, error) {
	fs := Cur
	h, ok := fs.fds[fd]
	if !ok {
		return -1, errBadF
	}
	if fs.OnRead != nil {
		if err := fs.OnRead(h.name); err != nil {
			return -1, err
		}
	}
	data := fs.Files[h.name]
	n := copy(p, data[h.pos:])
	h.pos += n
	return n, nil
}

func Fstat(fd int, st *unix.Stat_t) error {
	fs := Cur
	h, ok := fs.fds[fd]
	if !ok {
		return errBadF
	}
	if fs.OnStat != nil {
		if err := fs.OnStat(h.name); err != nil {
			return err
		}
	}
	st.Size = int64(len(fs.Files[h.name]))
	st.Mode = unix.S_IFREG | 0o644
	return nil
}

func Fstatat(dirfd int, path string, st *unix.Stat_t, flags int) error {
	fs := Cur
	if fs.OnStat != nil {
		if err := fs.OnStat(path); err != nil {
			return err
		}
	}
	data, ok := fs.Files[path]
	if !ok {
		return errNoEnt
	}
	st.Size = int64(len(data))
	st.Mode = unix.S_IFREG | 0o644
	return nil
}

func Unlinkat(dirfd int, path string, flags int) error {
	fs := Cur
	if fs.OnUnlink != nil {
		if err := fs.OnUnlink(path); err != nil {
			return err
		}
	}
	if _, ok := fs.Files[path]; !ok {
		return errNoEnt
	}
	delete(fs.Files, path)
	fs.Unlinks = append(fs.Unlinks, path)
	return nil
}

// ---- os.File of the queue directory ----

func OsOpen(name string) (*os.File, error) {
	if Cur.NoDir {
		return nil, errIO
	}
	return new(os.File), nil
}

func FileFd(f *os.File) uintptr { return 3 }

func FileSeek(f *os.File, offset int64, whence int) (int64, error) { return 0, nil }

func FileClose(f *os.File) error { return nil }

// FileReaddirnames lists the directory in an order unrelated to the names
// (here: reverse name order, so that code relying on the listing order is
// exposed); n > 0 limits the listing to the first n entries as readdir does.
func FileReaddirnames(f *os.File, n int) ([]string, error) {
	names := Cur.Names()
	out := make([]string, 0, len(names))
	for i := len(names) - 1; i >= 0; i-- {
		out = append(out, names[i])
	}
	if n > 0 && len(out) > n {
		out = out[:n]
	}
	return out, nil
}

func OsMkdirAll(path string, perm os.FileMode) error { return nil }

func OsWriteFile(name string, data []byte, perm os.FileMode) error { return nil }

// OnRename may return an error to inject a failure.
var OnRename func(from, to string) error

func Renameat(olddirfd int, oldpath string, newdirfd int, newpath string) error {
	fs := Cur
	if OnRename != nil {
		if err := OnRename(oldpath, newpath); err != nil {
			return err
		}
	}
	data, ok := fs.Files[oldpath]
	if !ok {
		return errNoEnt
	}
	delete(fs.Files, oldpath)
	fs.Files[newpath] = data
	return nil
}
