// Package fakenet is the scripted stand-in for *net.TCPConn used by the
// listener harnesses: the methods of *net.TCPConn the listener calls are
// replaced (harness/stubs.txt) by the functions below; a connection's behaviour
// is a script of read events.
package fakenet

import (
	"errors"
	"io"
	"net"
	"time"

	"github.com/relex/gotils/channels"
)

// Event is one result of Read: Data (a fragment), or Timeout (the short read
// deadline expired: the listener flushes), or EOF (client closed).
type Event struct {
	Data    []byte
	Timeout bool
	EOF     bool
	Delay   time.Duration // time that passes before the data arrives (the harness keeps it below the read deadline)
}

// ReadInfo records, per Read call, whether the read deadline was renewed just before it and how it ended.
type ReadInfo struct {
	Renewed bool
	Timeout bool
	At      int64 // clock reading (unix nanoseconds) when the Read call started
}

type state struct {
	script []Event
	pos    int
	closed chan struct{}
	isDone bool
	Reads  int

	deadline time.Time
	renewed  bool
	Log      []ReadInfo
}

// One scripted connection at a time: statically resolved promoted methods reach
// the stubs with a pointer to the embedded net.conn, dynamically dispatched ones
// with the *net.TCPConn, so the receiver is not used as a key.
var cur *state

var ErrTimeout = errors.New("i/o timeout (scripted)")
var ErrClosed = errors.New("use of closed network connection (scripted)")

// NewConn creates a connection that plays the script and then blocks until closed.
func NewConn(script []Event) *net.TCPConn {
	c := new(net.TCPConn)
	cur = &state{script: script, closed: make(chan struct{})}
	return c
}

func Reads(c *net.TCPConn) int { return cur.Reads }

// Drained reports whether every scripted event has been consumed.
func Drained(c *net.TCPConn) bool { return cur.pos >= len(cur.script) }

func IsClosed(c *net.TCPConn) bool { return cur.isDone }

// ReadLog returns what happened at each Read call so far.
func ReadLog(c *net.TCPConn) []ReadInfo { return cur.Log }

func Read(c *net.TCPConn, p []byte) (int, error) {
	s := cur
	s.Reads++
	s.Log = append(s.Log, ReadInfo{Renewed: s.renewed, At: time.Now().UnixNano()})
	s.renewed = false
	if s.isDone {
		return 0, ErrClosed
	}
	if s.pos >= len(s.script) {
		<-s.closed // nothing more to read: blocks until the connection is closed
		return 0, ErrClosed
	}
	ev := &s.script[s.pos]
	switch {
	case ev.Timeout:
		s.pos++
		s.Log[len(s.Log)-1].Timeout = true
		if !s.deadline.IsZero() {
			if d := s.deadline.Sub(time.Now()); d > 0 {
				time.Sleep(d) // a timeout is returned when the deadline set by the reader passes
			}
		}
		return 0, ErrTimeout
	case ev.EOF:
		s.pos++
		return 0, io.EOF
	}
	if ev.Delay > 0 {
		time.Sleep(ev.Delay)
		ev.Delay = 0
	}
	n := copy(p, ev.Data)
	if n < len(ev.Data) {
		ev.Data = ev.Data[n:]
	} else {
		s.pos++
	}
	return n, nil
}

func Close(c *net.TCPConn) error {
	s := cur
	if s.isDone {
		return ErrClosed
	}
	s.isDone = true
	close(s.closed)
	return nil
}

type addr struct{}

func (addr) Network() string { return "tcp" }
func (addr) String() string  { return "10.0.0.1:5140" }

func RemoteAddr(c *net.TCPConn) net.Addr                { return addr{} }
func SetKeepAlive(c *net.TCPConn, keepalive bool) error { return nil }
func SetReadDeadline(c *net.TCPConn, t time.Time) error {
	cur.deadline = t
	cur.renewed = true
	return nil
}
func TrySetTCPReadBuffer(c *net.TCPConn, max int, min int) (int, error) { return max, nil }

func IsNetworkTimeout(err error) bool { return err == ErrTimeout }
func IsNetworkClosed(err error) bool  { return err == ErrClosed || err == io.EOF }

// AnyAwaitables replaces gotils' reflect.Select based version for one or two awaitables.
func AnyAwaitables(awaitables ...channels.Awaitable) channels.Awaitable {
	agg := channels.NewSignalAwaitable()
	switch len(awaitables) {
	case 1:
		go func() { <-awaitables[0].Channel(); agg.Signal() }()
	case 2:
		go func() {
			select {
			case <-awaitables[0].Channel():
			case <-awaitables[1].Channel():
			}
			agg.Signal()
		}()
	default:
		panic("fakenet.AnyAwaitables supports one or two awaitables")
	}
	return agg
}

// AllAwaitables replaces gotils' reflect.Select based version: signalled when every given awaitable is.
func AllAwaitables(awaitables ...channels.Awaitable) channels.Awaitable {
	agg := channels.NewSignalAwaitable()
	go func() {
		for _, a := range awaitables {
			<-a.Channel()
		}
		agg.Signal()
	}()
	return agg
}
