package bconfig

// C16 — the YAML type dispatch of every pluggable component (ConfigHolder.UnmarshalYAML)
// on arbitrary node shapes: kind (scalar / mapping / sequence / alias), 0..3
// content nodes, first key "type" or not, known or unknown type name: a node
// that cannot be a component is reported as an error value - never a panic -
// and an accepted one carries a config object. The registry lookup
// (reflect.TypeOf) and the field decoder (yaml.v3 internals) are cut at their interfaces.

import (
	"errors"

	"github.com/relex/slog-agent/zz_verif/sym"
	"gopkg.in/yaml.v3"
)

type verifTransformCfg struct{ Header }

func verifStubGetConstructors() ConfigCreatorTable[BaseConfig] {
	return ConfigCreatorTable[BaseConfig]{"known": func() BaseConfig { return &verifTransformCfg{} }}
}

var verifDecodeFails bool

func verifStubNodeDecode(node *yaml.Node, v interface{}) error {
	if verifDecodeFails {
		return errors.New("unknown field (scripted)")
	}
	return nil
}

// VerifC16_ComponentNodeShapes: see the file comment.
//
//verif:native off
//verif:stub github.com/relex/slog-agent/base/bconfig.getConfigConstructors verifStubGetConstructors
//verif:stub github.com/relex/slog-agent/util/yamlinternal.NodeDecodeKnownFields verifStubNodeDecode
//verif:reach accepted rejected
func VerifC16_ComponentNodeShapes() {
	kinds := []yaml.Kind{yaml.ScalarNode, yaml.MappingNode, yaml.SequenceNode, yaml.AliasNode, yaml.DocumentNode}
	node := &yaml.Node{Kind: kinds[sym.Choice("kind", len(kinds))], Line: 3, Column: 5}
	n := sym.Choice("contentNodes", 5)
	for i := 0; i < n; i++ {
		c := &yaml.Node{Kind: kinds[sym.Choice("childKind", 3)]}
		switch i {
		case 0:
			c.Value = []string{"type", "name", ""}[sym.Choice("firstKey", 3)]
		case 1:
			c.Value = []string{"known", "unknown", ""}[sym.Choice("typeName", 3)]
		default:
			c.Value = "x"
		}
		node.Content = append(node.Content, c)
	}
	verifDecodeFails = sym.Bool("fieldDecodeFails")
	var holder ConfigHolder[BaseConfig]
	err := holder.UnmarshalYAML(node) // obligation: no panic for any node shape
	wellFormed := n >= 2 && node.Content[0].Kind == yaml.ScalarNode && node.Content[0].Value == "type" && node.Content[1].Value == "known" && !verifDecodeFails
	if err == nil {
		sym.Assert(wellFormed, "only a node whose first property is a known type, with decodable fields, is accepted")
		sym.Assert(holder.Value != nil && holder.Location != "", "an accepted node carries its config object and location")
		sym.Reach("accepted")
	} else {
		sym.Assert(!wellFormed, "a well-formed component node is accepted")
		sym.Reach("rejected")
	}
}
