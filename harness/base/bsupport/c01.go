package bsupport

// C01 — custody links L1 (parsing sink) and L3 (processing worker).
// C19 — pipeline counters balance; C12 — reference count with two outputs.

import (
	"time"

	"github.com/relex/gotils/logger"
	"github.com/relex/slog-agent/base"
	"github.com/relex/slog-agent/defs"
	"github.com/relex/slog-agent/zz_verif/fakes"
	"github.com/relex/slog-agent/zz_verif/sym"
)

var verifSchema = base.MustNewLogSchema([]string{"key", "msg"})

// ---- L1: logParsingReceiverSink ----

type verifFakeParser struct {
	alloc *base.LogAllocator
	n     int
}

// Parse accepts a line iff its first byte is not '!' (standing for any parser verdict).
func (p *verifFakeParser) Parse(input []byte, ts time.Time) *base.LogRecord {
	if len(input) > 0 && input[0] == '!' {
		return nil
	}
	r, _ := p.alloc.NewRecord(input)
	r.RawLength = len(input)
	p.n++
	r.Fields[0] = string(append([]byte{}, input...))
	return r
}

type verifDownSink struct {
	got    []string
	ticks  int
	closed bool
}

func (s *verifDownSink) Accept(buffer []*base.LogRecord) {
	sym.Assert(!s.closed, "nothing is handed over after Close")
	for _, r := range buffer {
		s.got = append(s.got, r.Fields[0])
	}
}
func (s *verifDownSink) Tick()  { s.ticks++ }
func (s *verifDownSink) Close() { s.closed = true }

type verifDownReceiver struct{ sink *verifDownSink }

func (r *verifDownReceiver) NewSink(addr string, n base.ClientNumber) base.BufferReceiverSink {
	return r.sink
}

// VerifC01_ParsingSinkHandsOver: every line the parser accepts is handed to the
// next stage exactly once, in order, no later than the next Flush; after the
// final Flush + Close nothing is left behind.
//
//verif:reach done batch-full
func VerifC01_ParsingSinkHandsOver() {
	defer func(v int) { defs.IntermediateBufferMaxNumLogs = v }(defs.IntermediateBufferMaxNumLogs)
	defs.IntermediateBufferMaxNumLogs = 2
	down := &verifDownSink{}
	alloc := base.NewLogAllocator(verifSchema, 1)
	recv := NewLogParsingReceiver(logger.Root(), func(l logger.Logger, c *base.LogInputCounterSet) base.LogParser {
		return &verifFakeParser{alloc: alloc}
	}, &verifDownReceiver{down}, fakes.NewMetrics())
	sink := recv.NewSink("client", 1)
	var want []string
	n := 3 + sym.Tier()
	for i := 0; i < n; i++ {
		line := []byte{byte('a' + i), 'x'}
		if sym.Bool("rejected") {
			line[0] = '!'
		} else {
			want = append(want, string(line))
		}
		sink.Accept(line)
		if sym.Bool("flush") {
			sink.Flush()
			sym.Assert(len(down.got) == len(want), "after a flush everything accepted so far has been handed over")
		}
		if len(down.got) > 0 && len(down.got) < len(want) {
			sym.Reach("batch-full")
		}
	}
	sink.Flush() // the listener flushes after the last line, before Close
	sink.Close()
	sym.Assert(down.closed, "the next stage is closed")
	sym.Assert(len(down.got) == len(want), "every accepted line is handed over exactly once")
	for i := range want {
		if i < len(down.got) {
			sym.Assert(down.got[i] == want[i], "lines are handed over in arrival order")
		}
	}
	sym.Reach("done")
}

// ---- L3: LogProcessingWorker ----

type verifOutput struct {
	name     string
	streams  [][]byte // serialized records written since the last chunk
	chunks   [][]string
	accepted [][]string // chunks handed to AcceptChunk (buffer)
	perChunk int
	seen     []string // field values seen by the serializer
}

func (o *verifOutput) SerializeRecord(r *base.LogRecord) base.LogStream {
	o.seen = append(o.seen, r.Fields[1])
	return base.LogStream("<" + r.Fields[1] + ">")
}

func (o *verifOutput) WriteStream(s base.LogStream) *base.LogChunk {
	var out *base.LogChunk
	if len(o.streams) >= o.perChunk {
		out = o.FlushBuffer()
	}
	o.streams = append(o.streams, append([]byte{}, s...))
	return out
}

func (o *verifOutput) FlushBuffer() *base.LogChunk {
	if len(o.streams) == 0 {
		return nil
	}
	var data []byte
	for _, s := range o.streams {
		data = append(data, s...)
	}
	o.streams = nil
	return &base.LogChunk{ID: "x", Data: data}
}

func (o *verifOutput) accept(c base.LogChunk) {
	o.accepted = append(o.accepted, []string{string(c.Data)})
}

// VerifC01_WorkerConservesRecords: a batch of records through the real worker
// (onInput / onStop) with a dropping transform and two outputs: every record
// that is not dropped is serialized intact for each output and ends up in
// exactly one chunk handed to the buffer; after onStop nothing is left in the
// packer; every record is released exactly once per output; exactly one of the
// key set's passed/dropped counters moves per record.
//
//verif:reach done dropped chunked
func VerifC01_WorkerConservesRecords() { verifWorkerScenario() }

// VerifC19_PipelineCounters: the same run read as the pipeline balance equation.
//
//verif:reach done dropped chunked
func VerifC19_PipelineCounters() { verifWorkerScenario() }

// VerifC12_TwoOutputsRefcount: the same run read as the reference-count discipline.
//
//verif:reach done dropped chunked
func VerifC12_TwoOutputsRefcount() { verifWorkerScenario() }

func verifWorkerScenario() {
	m := fakes.NewMetrics()
	locs, _ := verifSchema.CreateFieldLocators([]string{"key"})
	outs := []*verifOutput{{name: "o1", perChunk: 2}, {name: "o2", perChunk: 1}}
	alloc := base.NewLogAllocator(verifSchema, len(outs))
	pc := base.NewLogProcessCounter(m, verifSchema, locs, []string{"o1", "o2"})
	dropIf := func(r *base.LogRecord) base.FilterResult {
		if len(r.Fields[1]) > 0 && r.Fields[1][0] == 'd' {
			return base.DROP
		}
		return base.PASS
	}
	var ifs []OutputInterface
	for _, o := range outs {
		ifs = append(ifs, OutputInterface{LogSerializer: o, LogChunkMaker: o, Name: o.name, AcceptChunk: o.accept})
	}
	in := make(chan []*base.LogRecord, 1)
	w := NewLogProcessingWorker(logger.Root(), in, alloc, pc, []base.LogTransformFunc{dropIf}, ifs)
	n := 3
	var batch []*base.LogRecord
	var want []string
	nDropped := 0
	var isDropped []bool
	for i := 0; i < n; i++ {
		r, _ := alloc.NewRecord([]byte("0123456789"))
		r.RawLength = 10
		msg := string([]byte{sym.Byte("first"), byte('0' + i)})
		r.Fields[0], r.Fields[1] = []string{"k1", "k2"}[sym.Choice("key", 2)], msg
		batch = append(batch, r)
		isDropped = append(isDropped, msg[0] == 'd')
		if msg[0] == 'd' {
			nDropped++
		} else {
			want = append(want, msg)
		}
	}
	w.onInput(batch)
	w.onStop()
	for _, o := range outs {
		sym.Assert(len(o.streams) == 0, "after stop nothing is left in the packer")
		sym.Assert(len(o.seen) == len(want), "every passed record is serialized once per output")
		all := ""
		for _, c := range o.accepted {
			all += c[0]
		}
		exp := ""
		for i, msg := range want {
			exp += "<" + msg + ">"
			if i < len(o.seen) {
				sym.Assert(o.seen[i] == msg, "each output serializes the intact fields of the record")
			}
		}
		sym.Assert(all == exp, "the chunks handed to the buffer hold every passed record exactly once, in order")
		if len(o.accepted) > 1 {
			sym.Reach("chunked")
		}
	}
	for i, r := range batch {
		hasBuf, ref := r.VerifRecordState()
		if i < len(isDropped) && isDropped[i] {
			// a dropped record is released once and abandoned to the garbage collector: it must not go back to the pool half-referenced
			sym.Assert(ref == len(outs)-1, "a dropped record is released exactly once")
			continue
		}
		sym.Assert(ref == 0 && !hasBuf && r.Fields[1] == "", "every passed record is released exactly once per output (reference count back to zero, fields cleared)")
	}
	passed := m.CounterValue("passed_records_total", "k1") + m.CounterValue("passed_records_total", "k2")
	dropped := m.CounterValue("dropped_records_total", "k1") + m.CounterValue("dropped_records_total", "k2")
	sym.Assert(int(passed) == len(want) && int(dropped) == nDropped, "per record exactly one of the key set's passed/dropped counters moves")
	sym.Assert(int(passed+dropped) == n, "pipeline passed + dropped = records handed to the pipeline")
	if nDropped > 0 {
		sym.Reach("dropped")
	}
	sym.Reach("done")
}
