package base

// C12 — the allocator outlives configuration reloads (the inputs keep it), and
// a reload may append schema fields within the unchanged maxFields: a released
// record must be clean in every slot, whichever schema wrote into it.

import (
	"github.com/relex/slog-agent/zz_verif/sym"
)

// VerifC12_ReleaseClearsEverySlot: an allocator created for a schema of two
// named fields and maxFields four; a record whose slots are dirty by symbolic
// choice (the later slots as written by transforms of a reloaded configuration
// that appended fields), released once per output, then reused for the next
// record: the next record starts with every slot empty.
//
//verif:reach reused fresh
func VerifC12_ReleaseClearsEverySlot() {
	sym.PoolNondet(true)
	schema, err := NewLogSchema([]string{"a", "b"}, 4)
	sym.Assert(err == nil, "schema accepted")
	outputs := 1 + sym.Choice("outputs", 2)
	alloc := NewLogAllocator(schema, outputs)
	r1, _ := alloc.NewRecord([]byte("first record"))
	sym.Assert(len(r1.Fields) == 4, "a record has maxFields slots")
	for i := range r1.Fields {
		if sym.Bool("dirty") {
			r1.Fields[i] = "stale"
		}
	}
	for i := 0; i < outputs; i++ {
		alloc.Release(r1)
	}
	r2, _ := alloc.NewRecord([]byte("second"))
	for i := range r2.Fields {
		sym.Assert(r2.Fields[i] == "", "a new record starts with every field slot empty, whatever the previous user of the pooled object wrote")
	}
	if r2 == r1 {
		sym.Reach("reused")
	} else {
		sym.Reach("fresh")
	}
}
