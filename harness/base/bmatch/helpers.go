package bmatch

import "github.com/relex/slog-agent/zz_verif/sym"

// VerifMatch builds a matcher config for one field with the given operator tag (as the YAML loader would).
func VerifMatch(key, tag, expr string) LogMatcherConfig {
	ctor, ok := valueMatcherConstructors[tag]
	if !ok {
		panic("unknown tag " + tag)
	}
	m, err := ctor(expr)
	if err != nil {
		panic(err)
	}
	return LogMatcherConfig{key: m}
}

func verifRefMatch(op int, v, expr string, n int) bool {
	switch op {
	case 0:
		return v == expr
	case 1:
		return v != expr
	case 2: // starts with
		if len(v) < len(expr) {
			return false
		}
		for i := 0; i < len(expr); i++ {
			if v[i] != expr[i] {
				return false
			}
		}
		return true
	case 3: // ends with
		if len(v) < len(expr) {
			return false
		}
		for i := 0; i < len(expr); i++ {
			if v[len(v)-len(expr)+i] != expr[i] {
				return false
			}
		}
		return true
	case 4: // contains
		for s := 0; s+len(expr) <= len(v); s++ {
			hit := true
			for i := 0; i < len(expr); i++ {
				if v[s+i] != expr[i] {
					hit = false
				}
			}
			if hit {
				return true
			}
		}
		return false
	case 5:
		return len(v) > 0
	case 6:
		return len(v) > n
	case 7:
		return len(v) < n
	}
	return false
}

// VerifC15_ValueMatchers: every string/length match operator against its plain definition,
// for all values up to 4 bytes and all expressions up to 2 bytes.
//
//verif:reach matched unmatched
func VerifC15_ValueMatchers() {
	tags := []string{"!!str-eq", "!!str-not", "!!str-start", "!!str-end", "!!str-contain", "!!str-any", "!!len-gt", "!!len-lt"}
	op := sym.Choice("op", len(tags))
	nv := sym.Choice("valueLen", 5)
	v := sym.String("value", nv, nv)
	ne := sym.Choice("exprLen", 2) + 1
	expr := sym.String("expr", ne, ne)
	n := sym.Choice("n", 4)
	var m valueMatch
	var err error
	switch {
	case op == 5:
		m, err = valueMatcherConstructors[tags[op]]("")
	case op >= 6:
		m, err = valueMatcherConstructors[tags[op]](string([]byte{byte('0' + n)}))
	default:
		m, err = valueMatcherConstructors[tags[op]](expr)
	}
	sym.Assert(err == nil, "valid expression accepted")
	if err != nil {
		return
	}
	got := m.match(v)
	sym.Assert(got == verifRefMatch(op, v, expr, n), "operator result equals its definition")
	if got {
		sym.Reach("matched")
	} else {
		sym.Reach("unmatched")
	}
}
