package bmatch

import "github.com/relex/slog-agent/zz_verif/sym"

// VerifMatch builds a matcher config for one field with the given operator tag (as the YAML loader would).
func VerifMatch(key, tag, expr string) LogMatcherConfig {
	ctor, ok := valueMatcherConstructors[tag]
	if !ok {
		panic("unknown tag " + tag)
	}
	m, err := ctor(expr)
	if err != nil {
		panic(err)
	}
	return LogMatcherConfig{key: m}
}

func verifRefMatch(op int, v, expr string, n int) bool {
	switch op {
	case 0:
		return v == expr
	case 1:
		return v != expr
	case 2: // starts with
		if len(v) < len(expr) {
			return false
		}
		for i := 0; i < len(expr); i++ {
			if v[i] != expr[i] {
				return false
			}
		}
		return true
	case 3: // ends with
		if len(v) < len(expr) {
			return false
		}
		for i := 0; i < len(expr); i++ {
			if v[len(v)-len(expr)+i] != expr[i] {
				return false
			}
		}
		return true
	case 4: // contains
		for s := 0; s+len(expr) <= len(v); s++ {
			hit := true
			for i := 0; i < len(expr); i++ {
				if v[s+i] != expr[i] {
					hit = false
				}
			}
			if hit {
				return true
			}
		}
		return false
	case 5:
		return len(v) > 0
	case 6:
		return len(v) > n
	case 7:
		return len(v) < n
	}
	return false
}

// VerifC15_ValueMatchers: every string/length match operator against its plain definition,
// for all values up to 4 bytes and all expressions up to 2 bytes.
//
//verif:reach matched unmatched
func VerifC15_ValueMatchers() {
	tags := []string{"!!str-eq", "!!str-not", "!!str-start", "!!str-end", "!!str-contain", "!!str-any", "!!len-gt", "!!len-lt"}
	op := sym.Choice("op", len(tags))
	nv := sym.Choice("valueLen", 5)
	v := sym.String("value", nv, nv)
	ne := sym.Choice("exprLen", 2) + 1
	expr := sym.String("expr", ne, ne)
	n := sym.Choice("n", 4)
	var m valueMatch
	var err error
	switch {
	case op == 5:
		m, err = valueMatcherConstructors[tags[op]]("")
	case op >= 6:
		m, err = valueMatcherConstructors[tags[op]](string([]byte{byte('0' + n)}))
	default:
		m, err = valueMatcherConstructors[tags[op]](expr)
	}
	sym.Assert(err == nil, "valid expression accepted")
	if err != nil {
		return
	}
	got := m.match(v)
	sym.Assert(got == verifRefMatch(op, v, expr, n), "operator result equals its definition")
	if got {
		sym.Reach("matched")
	} else {
		sym.Reach("unmatched")
	}
}

// VerifC15_PatternMatchers: the !!regex and !!glob operators for a small family
// of concrete patterns on every value of up to 4 bytes: the result equals a
// hand-written reference for that pattern (unanchored search for regex, whole
// value for glob). The regexp and glob libraries are executed by the engine.
//
//verif:reach matched unmatched
//verif:paths 200000
//verif:steps 50000000
func VerifC15_PatternMatchers() {
	nv := sym.Choice("valueLen", 5)
	v := sym.String("value", nv, nv)
	var m valueMatch
	var err error
	var want bool
	switch sym.Choice("pattern", 4) {
	case 0: // regex, unanchored: a digit anywhere
		m, err = valueMatcherConstructors["!!regex"]("[0-9]")
		for i := 0; i < len(v); i++ {
			if v[i] >= '0' && v[i] <= '9' {
				want = true
			}
		}
	case 1: // regex, anchored: ^ab?c$
		m, err = valueMatcherConstructors["!!regex"]("^ab?c$")
		want = v == "ac" || v == "abc"
	case 2: // glob: a*c matches the whole value
		m, err = valueMatcherConstructors["!!glob"]("a*c")
		want = len(v) >= 2 && v[0] == 'a' && v[len(v)-1] == 'c'
	case 3: // glob: ?b
		m, err = valueMatcherConstructors["!!glob"]("?b")
		want = len(v) == 2 && v[1] == 'b' && v[0] < 0x80 // '?' is one character: one byte only for ASCII
		if len(v) >= 2 && v[0] >= 0x80 {
			return // multi-byte first character: rune decoding of arbitrary bytes is the library's business
		}
	}
	sym.Assert(err == nil, "valid pattern accepted")
	if err != nil {
		return
	}
	got := m.match(v)
	sym.Assert(got == want, "pattern operator result equals its definition")
	if got {
		sym.Reach("matched")
	} else {
		sym.Reach("unmatched")
	}
}

// VerifNullMatch is what the YAML loader produces for a condition written without a value (`app:`, `~`, `null`):
// yaml.v3 does not call the custom unmarshaller for a null node, so the map entry is the zero matcher.
func VerifNullMatch(key string) LogMatcherConfig {
	return LogMatcherConfig{key: valueMatch{}}
}
