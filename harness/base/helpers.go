package base

// Harness accessors for unexported counter state (overlay only).

// VerifCustomCount returns how many records the custom counter with this label has seen.
func (host *logCustomCounterHost) VerifCustomCount(label string) uint64 {
	c, ok := host.counterMap[label]
	if !ok {
		return 0
	}
	return c.countMetric.Get() + c.unwrittenCount
}

// VerifCustomBytes returns the byte total of the custom counter with this label.
func (host *logCustomCounterHost) VerifCustomBytes(label string) uint64 {
	c, ok := host.counterMap[label]
	if !ok {
		return 0
	}
	return c.lengthMetric.Get() + c.unwrittenLength
}

// VerifOverflowCount is the parser's "overflow" custom counter.
func (icounter *LogInputCounterSet) VerifOverflowCount() uint64 {
	return icounter.VerifCustomCount("overflow")
}

// VerifRecordState exposes the pooled state of a record (overlay only).
func (r *LogRecord) VerifRecordState() (hasBackbuf bool, refCount int) {
	return r._backbuf != nil, r._refCount
}

// VerifBackbufLen returns the length of the record's backing buffer or -1.
func (r *LogRecord) VerifBackbufLen() int {
	if r._backbuf == nil {
		return -1
	}
	return len(*r._backbuf)
}
