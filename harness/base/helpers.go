package base

// Harness accessors for unexported counter state (overlay only).

// VerifCustomCount returns how many records the custom counter with this label has seen.
func (host *logCustomCounterHost) VerifCustomCount(label string) uint64 {
	c, ok := host.counterMap[label]
	if !ok {
		return 0
	}
	return c.countMetric.Get() + c.unwrittenCount
}

// VerifCustomBytes returns the byte total of the custom counter with this label.
func (host *logCustomCounterHost) VerifCustomBytes(label string) uint64 {
	c, ok := host.counterMap[label]
	if !ok {
		return 0
	}
	return c.lengthMetric.Get() + c.unwrittenLength
}

// VerifOverflowCount is the parser's "overflow" custom counter.
func (icounter *LogInputCounterSet) VerifOverflowCount() uint64 {
	return icounter.VerifCustomCount("overflow")
}
