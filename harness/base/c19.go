package base

// Metric key sets (C07 robustness, C06/C19 attribution).

import (
	"strings"
	"unicode/utf8"

	"github.com/relex/slog-agent/util"
	"github.com/relex/slog-agent/zz_verif/fakes"
	"github.com/relex/slog-agent/zz_verif/sym"
)

var verifKeySchema = MustNewLogSchema([]string{"host", "app", "msg"})

func verifMetricValue(name string, ascii bool) string {
	n := sym.Choice(name+"Len", 3)
	v := sym.String(name, n, n)
	for i := 0; i < len(v); i++ {
		if ascii {
			sym.Assume(v[i] < 0x80)
		}
	}
	return v
}

func verifNewProcessCounter(m *fakes.Metrics) *LogProcessCounterSet {
	locs, err := verifKeySchema.CreateFieldLocators([]string{"host", "app"})
	if err != nil {
		panic(err)
	}
	return NewLogProcessCounter(m, verifKeySchema, locs, []string{"out"})
}

// VerifC07_MetricKeysAnyBytes: metric-key values of arbitrary bytes must not crash the pipeline worker.
//
//verif:reach done
func VerifC07_MetricKeysAnyBytes() {
	h, a := verifMetricValue("host", false), verifMetricValue("app", false)
	pc := verifNewProcessCounter(fakes.NewMetrics())
	count := pc.RegisterCustomCounter("label1")
	rec := verifKeySchema.NewTestRecord1(LogFields{h, a, "m"})
	rec.RawLength = 10
	ic := pc.SelectMetricKeySet(rec) // obligation: no panic
	ic.CountRecordPass(rec)
	count(10)
	pc.UpdateMetrics()
	sym.Reach("done")
}

// VerifC19_MetricKeySetAttribution: two records: counters are shared iff the
// metric-key tuples are equal, and each record is counted under its own tuple.
//
//verif:reach same different
func VerifC19_MetricKeySetAttribution() {
	h1, a1 := verifMetricValue("host1", true), verifMetricValue("app1", true)
	h2, a2 := verifMetricValue("host2", true), verifMetricValue("app2", true)
	m := fakes.NewMetrics()
	pc := verifNewProcessCounter(m)
	r1 := verifKeySchema.NewTestRecord1(LogFields{h1, a1, "m"})
	r2 := verifKeySchema.NewTestRecord1(LogFields{h2, a2, "m"})
	r1.RawLength, r2.RawLength = 10, 7
	c1 := pc.SelectMetricKeySet(r1)
	c1.CountRecordPass(r1)
	c2 := pc.SelectMetricKeySet(r2)
	c2.CountRecordDrop(r2)
	same := h1 == h2 && a1 == a2
	sym.Assert((c1 == c2) == same, "records share a counter set iff their metric-key tuples are equal")
	pc.UpdateMetrics()
	sym.Assert(m.CounterValue("passed_records_total", h1, a1) == 1 && m.CounterValue("passed_record_bytes_total", h1, a1) == 10, "first record counted under its own label values")
	sym.Assert(m.CounterValue("dropped_records_total", h2, a2) == 1 && m.CounterValue("dropped_record_bytes_total", h2, a2) == 7, "second record counted under its own label values")
	if !same {
		sym.Assert(m.CounterValue("dropped_records_total", h1, a1) == 0 && m.CounterValue("passed_records_total", h2, a2) == 0, "no cross attribution")
		sym.Reach("different")
	} else {
		sym.Reach("same")
	}
}

// VerifC19_MetricKeySetAttributionLongValues: the attribution question with
// value lengths on both sides of the places where the decimal length prefix of
// the merged lookup key changes its width (9/10/11 bytes; thorough: 99/100/101
// too), every byte symbolic (ASCII, so that label values are kept as they are):
// tuples such as ("2","abcdefghij0") and ("11abcdefghij","") must not share a
// counter set. Lengths are case-split, contents are decided by the solver.
//
//verif:reach same different
//verif:paths 200000
func VerifC19_MetricKeySetAttributionLongValues() {
	lens := []int{0, 1, 9, 10, 11}
	if sym.Tier() > 0 {
		lens = []int{0, 1, 2, 9, 10, 11, 12, 99, 100, 101}
	}
	value := func(name string) string {
		n := lens[sym.Choice(name+"Len", len(lens))]
		v := sym.String(name, n, n)
		for i := 0; i < len(v); i++ {
			sym.Assume(v[i] < 0x80)
		}
		return v
	}
	h1, a1 := value("host1"), value("app1")
	h2, a2 := value("host2"), value("app2")
	m := fakes.NewMetrics()
	pc := verifNewProcessCounter(m)
	r1 := verifKeySchema.NewTestRecord1(LogFields{h1, a1, "m"})
	r2 := verifKeySchema.NewTestRecord1(LogFields{h2, a2, "m"})
	c1 := pc.SelectMetricKeySet(r1)
	c2 := pc.SelectMetricKeySet(r2)
	same := h1 == h2 && a1 == a2
	sym.Assert((c1 == c2) == same, "records with longer metric-key values share a counter set iff their tuples are equal")
	if same {
		sym.Reach("same")
	} else {
		sym.Reach("different")
	}
}

// VerifC19_LabelsOfArbitraryByteValues: metric-key values of arbitrary bytes (not
// only valid UTF-8): the record is counted under the label values of its own
// key fields, each made valid UTF-8 on its own (invalid sequences replaced by
// U+FFFD) - a broken value in one key must not change the label of another key.
//
//verif:reach all-valid some-invalid
func VerifC19_LabelsOfArbitraryByteValues() {
	value := func(name string, max int) string {
		n := sym.Choice(name+"Len", max+1)
		return sym.String(name, n, n)
	}
	// quick: host of 0..1 and app of 0..2 arbitrary bytes; thorough: both 0..2
	h, a := value("host", 1+sym.Tier()), value("app", 2)
	m := fakes.NewMetrics()
	pc := verifNewProcessCounter(m)
	rec := verifKeySchema.NewTestRecord1(LogFields{h, a, "m"})
	rec.RawLength = 10
	ic := pc.SelectMetricKeySet(rec)
	ic.CountRecordPass(rec)
	pc.UpdateMetrics()
	wh, wa := strings.ToValidUTF8(h, "\uFFFD"), strings.ToValidUTF8(a, "\uFFFD")
	sym.Assert(m.CounterValue("passed_records_total", wh, wa) == 1 && m.CounterValue("passed_record_bytes_total", wh, wa) == 10,
		"the record is counted under its own key values, each made valid UTF-8 on its own")
	if utf8.ValidString(h) && utf8.ValidString(a) {
		sym.Reach("all-valid")
	} else {
		sym.Reach("some-invalid")
	}
}

// VerifC19_LabelsSurviveBufferReuse: the label values of a metric key set are
// private copies: after the record that created the key set is released and its
// buffer reused, later records of the same tuple are still counted under the
// original label values.
//
//verif:reach checked
func VerifC19_LabelsSurviveBufferReuse() {
	n := sym.Choice("len", 2) + 1
	buf := sym.Bytes("host", n, n)
	for i := range buf {
		sym.Assume(buf[i] < 0x80)
	}
	orig := string(buf)
	m := fakes.NewMetrics()
	pc := verifNewProcessCounter(m)
	r1 := verifKeySchema.NewTestRecord1(LogFields{util.StringFromBytes(buf), "app", "m"})
	r1.RawLength = 10
	pc.SelectMetricKeySet(r1).CountRecordPass(r1)
	for i := range buf {
		buf[i] = sym.Byte("overwrite") & 0x7f // the record is released, its buffer reused
	}
	r2 := verifKeySchema.NewTestRecord1(LogFields{orig, "app", "m"})
	r2.RawLength = 5
	pc.SelectMetricKeySet(r2).CountRecordPass(r2)
	pc.UpdateMetrics()
	sym.Assert(m.CounterValue("passed_records_total", orig, "app") == 2 && m.CounterValue("passed_record_bytes_total", orig, "app") == 15,
		"both records are counted under the original label values of their key set")
	sym.Reach("checked")
}

// VerifC12_MetricLabelsOutliveTheRecord: the same run read as record isolation.
//
//verif:reach checked
func VerifC12_MetricLabelsOutliveTheRecord() { VerifC19_LabelsSurviveBufferReuse() }

// VerifC19_SharedLabelCounters: two registrants of custom counters on one
// counter host (e.g. two transforms of a pipeline, or a transform and the
// parser's own "overflow" counter) with equal or different labels, each
// counting a symbolic number of records of symbolic length: after
// UpdateMetrics the labelled counters hold exactly what was counted per label.
//
//verif:reach same-label different-labels
func VerifC19_SharedLabelCounters() {
	host := newLogCustomCounterHost(fakes.NewMetrics())
	labels := []string{"redacted", "overflow"}
	l1 := labels[sym.Choice("label1", 2)]
	l2 := labels[sym.Choice("label2", 2)]
	c1 := host.RegisterCustomCounter(l1)
	c2 := host.RegisterCustomCounter(l2)
	want := map[string][2]uint64{}
	count := func(f func(int), label string, name string) {
		n := sym.Choice(name, 3)
		for i := 0; i < n; i++ {
			length := sym.IntRange(name+"Len", 0, 1000)
			f(length)
			w := want[label]
			want[label] = [2]uint64{w[0] + 1, w[1] + uint64(length)}
		}
	}
	count(c1, l1, "first")
	count(c2, l2, "second")
	host.UpdateMetrics()
	count(c1, l1, "firstAgain")
	host.UpdateMetrics()
	for _, l := range labels {
		sym.Assert(host.countMetricVec.WithLabelValues(l).Get() == want[l][0], "labelled record count = records counted under that label by every registrant")
		sym.Assert(host.lengthMetricVec.WithLabelValues(l).Get() == want[l][1], "labelled byte count = bytes counted under that label by every registrant")
	}
	if l1 == l2 {
		sym.Reach("same-label")
	} else {
		sym.Reach("different-labels")
	}
}

// VerifC19_SharedLabelProcessCounters: the pipeline-level counter set: three
// registrants of labelled counters (three transforms of one pipeline, e.g. two
// parseTime steps sharing `timeError` and a redaction step) whose labels are
// chosen symbolically from two names - equal labels in any position -, each
// counting a symbolic number of records for the selected metric key set: no
// registrant panics, and after UpdateMetrics every label holds exactly what
// its registrants counted.
//
//verif:reach shared distinct
func VerifC19_SharedLabelProcessCounters() {
	labels := []string{"timeError", "redacted"}
	m := fakes.NewMetrics()
	pc := verifNewProcessCounter(m)
	var regs [3]func(int)
	var regLabel [3]string
	for i := range regs {
		regLabel[i] = labels[sym.Choice("label", 2)]
		regs[i] = pc.RegisterCustomCounter(regLabel[i])
	}
	rec := verifKeySchema.NewTestRecord1(LogFields{"h", "a", "m"})
	rec.RawLength = 10
	pc.SelectMetricKeySet(rec)
	want := map[string][2]uint64{}
	for i := range regs {
		n := sym.Choice("records", 3)
		for j := 0; j < n; j++ {
			length := sym.IntRange("length", 0, 1000)
			regs[i](length) // obligation: no panic, whichever registrant shares its label with an earlier one
			w := want[regLabel[i]]
			want[regLabel[i]] = [2]uint64{w[0] + 1, w[1] + uint64(length)}
		}
	}
	pc.UpdateMetrics()
	for _, l := range labels {
		vec, registered := pc.customCounterVecMap[l]
		if !registered {
			continue // nobody registered this label: nothing was counted under it
		}
		sym.Assert(vec.countMetricVec.WithLabelValues("h", "a").Get() == want[l][0], "labelled record count = records counted under that label by every registrant of the pipeline")
		sym.Assert(vec.lengthMetricVec.WithLabelValues("h", "a").Get() == want[l][1], "labelled byte count = bytes counted under that label by every registrant of the pipeline")
	}
	if regLabel[0] == regLabel[1] || regLabel[1] == regLabel[2] || regLabel[0] == regLabel[2] {
		sym.Reach("shared")
	}
	if regLabel[0] != regLabel[1] || regLabel[1] != regLabel[2] {
		sym.Reach("distinct")
	}
}

// VerifC13_SharedErrorLabelIsCounted: the same run read for C13: two parseTime steps may share one error label; every
// malformed timestamp either of them meets is counted under it.
//
//verif:reach shared distinct
func VerifC13_SharedErrorLabelIsCounted() { VerifC19_SharedLabelProcessCounters() }
