package run

// C17, the configuration dimension: the real ParseConfigFile, NewLoaderFromConfigFile,
// Reloader.initiateDownstreamReload, checkConfigCompatibility and
// ReloadableOrchestrator.reload, for a family of new configurations that differ
// from the running one by a symbolic choice of defect (invalid section,
// incompatible change) or by a compatible change.
// Stubbed: the YAML reader (fills Config from the harness value), the YAML
// rendering of the inputs section (address|field per input), the Prometheus
// factory of the new pipeline set. Section configs of inputs, buffers, outputs
// and the orchestrator are scripted implementations of the bconfig interfaces
// (their own validation is C16's subject); transforms are the real ones.

import (
	"errors"
	"io"
	"sync"

	"github.com/relex/gotils/channels"
	"github.com/relex/gotils/logger"
	"github.com/relex/gotils/promexporter/promreg"
	"github.com/relex/slog-agent/base"
	"github.com/relex/slog-agent/base/bconfig"
	"github.com/relex/slog-agent/transform/taddfields"
	"github.com/relex/slog-agent/zz_verif/fakes"
	"github.com/relex/slog-agent/zz_verif/sym"
)

type verifInputCfg struct {
	bconfig.Header
	Addr  string
	Field string
	Bad   bool
}

func (c *verifInputCfg) NewInput(_ logger.Logger, _ *base.LogAllocator, _ base.LogSchema, receiver base.MultiSinkBufferReceiver, _ promreg.MetricCreator, stop channels.Awaitable) (base.LogInput, error) {
	in := &verifInput{addr: c.Addr, receiver: receiver, stop: stop, stopped: channels.NewSignalAwaitable()}
	verifInputs = append(verifInputs, in)
	return in, nil
}

// verifInput is a scripted input: one connection that holds a record it has
// read; on the stop request it takes a symbolic number of scheduling steps,
// hands the record over (the final flush) and only then counts as stopped.
type verifInput struct {
	addr     string
	receiver base.MultiSinkBufferReceiver
	stop     channels.Awaitable
	stopped  *channels.SignalAwaitable
	flushed  bool
}

var verifInputs []*verifInput

func (in *verifInput) Address() string             { return in.addr }
func (in *verifInput) Stopped() channels.Awaitable { return in.stopped }
func (in *verifInput) Start() {
	go func() {
		sink := in.receiver.NewSink(in.addr, 1)
		<-in.stop.Channel()
		for i := sym.Choice("stepsToFlush", 3); i > 0; i-- {
			sym.Yield()
		}
		sink.Accept([]*base.LogRecord{verifRecord})
		sink.Close()
		in.flushed = true
		in.stopped.Signal()
	}()
}

func (c *verifInputCfg) NewParser(logger.Logger, *base.LogAllocator, base.LogSchema, *base.LogInputCounterSet) (base.LogParser, error) {
	return nil, errors.New("not used")
}

func (c *verifInputCfg) VerifyConfig(schema base.LogSchema) error {
	if c.Bad {
		return errors.New("scripted: invalid input")
	}
	_, err := schema.CreateFieldLocator(c.Field)
	return err
}

type verifOrcCfg struct {
	bconfig.Header
	Keys []string
	mon  *verifReloadMon
}

func (c *verifOrcCfg) StartOrchestrator(logger.Logger, bconfig.PipelineArgs, promreg.MetricCreator) base.Orchestrator {
	return c.mon.newGen()
}

func (c *verifOrcCfg) VerifyConfig(schema base.LogSchema) ([]string, error) {
	if _, err := schema.CreateFieldLocators(c.Keys); err != nil {
		return nil, err
	}
	return c.Keys, nil
}

type verifBufCfg struct {
	bconfig.Header
	Bad bool
}

func (c *verifBufCfg) ListBufferIDs(logger.Logger, func(string) bool, promreg.MetricCreator) []string {
	return nil
}

func (c *verifBufCfg) NewBufferer(logger.Logger, string, func(string) bool, promreg.MetricCreator, bool) base.ChunkBufferer {
	return nil
}

func (c *verifBufCfg) VerifyConfig() error {
	if c.Bad {
		return errors.New("scripted: invalid buffer")
	}
	return nil
}

type verifOutCfg struct {
	bconfig.Header
	Bad bool
}

func (c *verifOutCfg) DecodeChunkToJSON(base.LogChunk, []byte, bool, io.Writer) (base.LogChunkInfo, error) {
	return base.LogChunkInfo{}, nil
}
func (c *verifOutCfg) MatchChunkID(string) bool { return true }
func (c *verifOutCfg) NewSerializer(logger.Logger, base.LogSchema, string) base.LogSerializer {
	return nil
}
func (c *verifOutCfg) NewChunkMaker(logger.Logger, string) base.LogChunkMaker { return nil }
func (c *verifOutCfg) NewForwarder(logger.Logger, base.ChunkConsumerArgs, promreg.MetricCreator) base.ChunkConsumer {
	return nil
}
func (c *verifOutCfg) VerifyConfig(base.LogSchema) error {
	if c.Bad {
		return errors.New("scripted: invalid output")
	}
	return nil
}

// the "file" the stubbed YAML reader reads
var verifConfigFile *Config

func verifStubUnmarshalYamlFile(path string, output interface{}) error {
	if verifConfigFile == nil {
		return errors.New("scripted: unreadable or malformed file")
	}
	*(output.(*Config)) = *verifConfigFile
	return nil
}

func verifStubMarshalYaml(source interface{}) (string, error) {
	s := ""
	for _, h := range source.([]bconfig.LogInputConfigHolder) {
		in := h.Value.(*verifInputCfg)
		s += in.Type + "|" + in.Addr + "|" + in.Field + "\n"
	}
	return s, nil
}

func verifStubNewMetricFactory(prefix string, labelNames []string, labelValues []string) *promreg.MetricFactory {
	return nil
}

func verifBaseConfig(mon *verifReloadMon) *Config {
	return &Config{
		Schema:        SchemaConfig{Fields: []string{"app", "level", "msg", "tag"}, MaxFields: 6},
		Inputs:        []bconfig.LogInputConfigHolder{{Value: &verifInputCfg{Header: bconfig.Header{Type: "in"}, Addr: "a:1", Field: "level"}}},
		Orchestration: bconfig.OrchestratorConfigHolder{Value: &verifOrcCfg{Header: bconfig.Header{Type: "byKeySet"}, Keys: []string{"app"}, mon: mon}},
		MetricKeys:    []string{"level"},
		Transformations: []bconfig.LogTransformConfigHolder{
			{Value: &taddfields.Config{Fields: map[string]string{"tag": "x-$app"}}},
		},
		OutputBuffersPairs: []bconfig.OutputBufferConfig{
			{Name: "o1", BufferConfig: bconfig.ConfigHolder[bconfig.ChunkBufferConfig]{Value: &verifBufCfg{}}, OutputConfig: bconfig.ConfigHolder[bconfig.LogOutputConfig]{Value: &verifOutCfg{}}},
			{Name: "o2", BufferConfig: bconfig.ConfigHolder[bconfig.ChunkBufferConfig]{Value: &verifBufCfg{}}, OutputConfig: bconfig.ConfigHolder[bconfig.LogOutputConfig]{Value: &verifOutCfg{}}},
		},
	}
}

const (
	verifCfgSame = iota
	verifCfgCompatibleChange
	verifCfgUnreadable
	verifCfgNoFields
	verifCfgNoMaxFields
	verifCfgMaxFieldsTooSmall
	verifCfgBadInput
	verifCfgInputUnknownField
	verifCfgOrcUnknownKey
	verifCfgNoMetricKeys
	verifCfgUnknownMetricKey
	verifCfgMetricKeyIsOrcKey
	verifCfgBadTransform
	verifCfgBadBuffer
	verifCfgBadOutput
	verifCfgDuplicatePair
	verifCfgMaxFieldsChanged
	verifCfgInputAddressChanged
	verifCfgInputAdded
	verifCfgOrcTypeChanged
	verifCfgOrcKeysChanged
	verifCfgFixedFieldMoved
	verifCfgAnyMaxFields
	verifCfgAnyMetricKey
	verifCfgAnyOrcKey
	verifCfgAnyFieldName
	verifCfgNumCases
)

// verifNewConfig returns the new configuration file for a case and whether the reload must be refused.
func verifNewConfig(mon *verifReloadMon, which int) (*Config, bool) {
	c := verifBaseConfig(mon)
	in := c.Inputs[0].Value.(*verifInputCfg)
	orc := c.Orchestration.Value.(*verifOrcCfg)
	switch which {
	case verifCfgSame:
		return c, false
	case verifCfgCompatibleChange:
		// non-fixed fields moved and renamed, other metric keys, other transforms, other outputs
		c.Schema.Fields = []string{"app", "level", "tag", "text", "more"}
		c.MetricKeys = []string{"level", "tag"}
		c.Transformations = []bconfig.LogTransformConfigHolder{{Value: &taddfields.Config{Fields: map[string]string{"more": "$text"}}}}
		c.OutputBuffersPairs = c.OutputBuffersPairs[:1]
		return c, false
	case verifCfgUnreadable:
		return nil, true
	case verifCfgNoFields:
		c.Schema.Fields = nil
	case verifCfgNoMaxFields:
		c.Schema.MaxFields = 0
	case verifCfgMaxFieldsTooSmall:
		c.Schema.MaxFields = 3
	case verifCfgBadInput:
		in.Bad = true
	case verifCfgInputUnknownField:
		in.Field = "nope"
	case verifCfgOrcUnknownKey:
		orc.Keys = []string{"app", "nope"}
	case verifCfgNoMetricKeys:
		c.MetricKeys = nil
	case verifCfgUnknownMetricKey:
		c.MetricKeys = []string{"level", "nope"}
	case verifCfgMetricKeyIsOrcKey:
		c.MetricKeys = []string{"level", "app"}
	case verifCfgBadTransform:
		c.Transformations = append(c.Transformations, bconfig.LogTransformConfigHolder{Value: &taddfields.Config{Fields: map[string]string{"nope": "x"}}})
	case verifCfgBadBuffer:
		c.OutputBuffersPairs[sym.Choice("badPair", 2)].BufferConfig.Value.(*verifBufCfg).Bad = true
	case verifCfgBadOutput:
		c.OutputBuffersPairs[sym.Choice("badPair", 2)].OutputConfig.Value.(*verifOutCfg).Bad = true
	case verifCfgDuplicatePair:
		c.OutputBuffersPairs[1].Name = "o1"
	case verifCfgMaxFieldsChanged:
		c.Schema.MaxFields = 7
	case verifCfgInputAddressChanged:
		in.Addr = "a:2"
	case verifCfgInputAdded:
		c.Inputs = append(c.Inputs, bconfig.LogInputConfigHolder{Value: &verifInputCfg{Header: bconfig.Header{Type: "in"}, Addr: "a:3", Field: "level"}})
	case verifCfgOrcTypeChanged:
		orc.Type = "singleton"
	case verifCfgOrcKeysChanged:
		orc.Keys = []string{"app", "tag"}
	case verifCfgFixedFieldMoved:
		c.Schema.Fields = []string{"level", "app", "msg", "tag"}
	case verifCfgAnyMaxFields:
		// every number: too small for the fields, or different from the running value, or the same
		n := sym.IntRange("maxFields", -1, 1000)
		c.Schema.MaxFields = n
		return c, n != 6
	case verifCfgAnyMetricKey:
		// every 3-byte name as the second metric key: accepted iff a schema field that is not an orchestration key
		k := sym.String("metricKey", 3, 3)
		c.MetricKeys = []string{"level", k}
		return c, !(k == "msg" || k == "tag")
	case verifCfgAnyOrcKey:
		// every 3-byte name as the orchestration key: only the running key is compatible
		k := sym.String("orcKey", 3, 3)
		orc.Keys = []string{k}
		return c, k != "app"
	case verifCfgAnyFieldName:
		// every 3-byte name for the third schema field: duplicates are invalid, "msg"/other names are fine as the field is not fixed
		// (the transform writes "tag" from "app", the metric key is "level")
		k := sym.String("fieldName", 3, 3)
		c.Schema.Fields = []string{"app", "level", k, "tag"}
		return c, k == "app" || k == "tag"
	}
	return c, true
}

// VerifC17_ConfigGate: for every case of the family, a reload with a refused
// configuration changes nothing (same Loader, same pipeline set, one failure
// counted); an accepted one swaps the pipeline set once, after the old one shut down.
//
//verif:native off
//verif:stub github.com/relex/slog-agent/util.UnmarshalYamlFile verifStubUnmarshalYamlFile
//verif:stub github.com/relex/slog-agent/util.MarshalYaml verifStubMarshalYaml
//verif:stub github.com/relex/gotils/promexporter/promreg.NewMetricFactory verifStubNewMetricFactory
//verif:steps 40000000
//verif:reach refused reloaded
func VerifC17_ConfigGate() {
	ok, fail := &fakes.PromCounter{}, &fakes.PromCounter{}
	defer func(a, b interface{}) {}(reloadSuccessCounter, reloadFailureCounter)
	reloadSuccessCounter, reloadFailureCounter = ok, fail
	mon := &verifReloadMon{}

	verifConfigFile = verifBaseConfig(mon)
	oldLoader, err := NewLoaderFromConfigFile("conf.yml", "p_")
	sym.Assert(err == nil && oldLoader != nil, "the running configuration is valid")
	reloader := &Reloader{Loader: oldLoader, reloadingLock: &sync.Mutex{}}
	rorc := reloader.StartOrchestrator(logger.Root()).(*ReloadableOrchestrator)
	sym.Assert(len(mon.gens) == 1, "one pipeline set runs")
	sink := rorc.NewSink("client", 3)
	sink.Accept([]*base.LogRecord{verifRecord})

	which := sym.Choice("newConfig", verifCfgNumCases)
	newConf, refuse := verifNewConfig(mon, which)
	verifConfigFile = newConf
	rorc.reload()

	sink.Accept([]*base.LogRecord{verifRecord})
	if refuse {
		sym.Assert(fail.N == 1 && ok.N == 0, "a refused configuration is counted as one reload failure")
		sym.Assert(reloader.Loader == oldLoader, "a refused configuration leaves the loader on the old configuration")
		sym.Assert(len(mon.gens) == 1 && !mon.gens[0].shutdown, "a refused configuration leaves the running pipeline set untouched")
		sym.Reach("refused")
	} else {
		sym.Assert(fail.N == 0 && ok.N == 1, "an accepted configuration is counted as one successful reload")
		sym.Assert(len(mon.gens) == 2 && mon.gens[0].shutdown && !mon.gens[1].shutdown, "an accepted configuration replaces the pipeline set once")
		sym.Assert(reloader.Loader != oldLoader && reloader.Loader.PipelineArgs.Deallocator == oldLoader.PipelineArgs.Deallocator,
			"the new pipeline set recycles records through the allocator the inputs keep using")
		sym.Assert(len(reloader.Loader.PipelineArgs.MetricKeyLocators) == len(newConf.MetricKeys), "the new pipeline set uses the new metric keys")
		sym.Reach("reloaded")
	}
	sink.Close()
	sym.Assert(mon.delivered == 2, "records accepted before and after the reload attempt reach a live pipeline set")
}

// VerifC01_InputsStopBeforePipelines: run.Run's stop sequence - the shutdown
// function returned by Loader.LaunchInputs, then Orchestrator.Shutdown - with
// two scripted inputs that each hold a record until the stop request and need
// a symbolic number of scheduling steps for their final flush: the shutdown
// function returns only after every input has handed its records over, so no
// record reaches a pipeline set that is already shut down.
//
//verif:native off
//verif:preempt 0
//verif:delays 2
//verif:stub github.com/relex/gotils/promexporter/promreg.NewMetricFactory verifStubNewMetricFactory
//verif:reach done
func VerifC01_InputsStopBeforePipelines() {
	verifInputs = nil
	mon := &verifReloadMon{}
	conf := verifBaseConfig(mon)
	conf.Inputs = append(conf.Inputs, bconfig.LogInputConfigHolder{Value: &verifInputCfg{Header: bconfig.Header{Type: "in"}, Addr: "a:2", Field: "level"}})
	loader := &Loader{Config: *conf, logger: logger.Root()}
	orc := mon.newGen()
	addrs, shutdownInputs := loader.LaunchInputs(orc)
	sym.Assert(len(addrs) == 2 && len(verifInputs) == 2, "both inputs are launched")
	sym.Yield()
	shutdownInputs()
	for _, in := range verifInputs {
		sym.Assert(in.flushed, "the input shutdown returns only after every input has done its final flush")
	}
	orc.Shutdown() // asserts that every sink is closed; a later Accept asserts "no record is handed to a pipeline set that has been shut down"
	for i := 0; i < 3; i++ {
		sym.Yield()
	}
	sym.Assert(mon.delivered == 2, "the records held by the inputs at the stop request reach the pipelines")
	sym.Reach("done")
}

// VerifC18_InputsStopBeforePipelines: the same sequence read for C18 (the stop sequence terminates: no deadlock).
//
//verif:native off
//verif:preempt 0
//verif:delays 2
//verif:stub github.com/relex/gotils/promexporter/promreg.NewMetricFactory verifStubNewMetricFactory
//verif:reach done
func VerifC18_InputsStopBeforePipelines() { VerifC01_InputsStopBeforePipelines() }
