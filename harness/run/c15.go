package run

// C15 — a nested transform program (depth 3) against a reference interpreter,
// plus kernel harnesses for template slices, truncation and unescaping.

import (
	"github.com/relex/gotils/logger"
	"github.com/relex/slog-agent/base"
	"github.com/relex/slog-agent/base/bconfig"
	"github.com/relex/slog-agent/base/bmatch"
	"github.com/relex/slog-agent/base/bsupport"
	"github.com/relex/slog-agent/transform/taddfields"
	"github.com/relex/slog-agent/transform/tblock"
	"github.com/relex/slog-agent/transform/tdelfields"
	"github.com/relex/slog-agent/transform/tdrop"
	"github.com/relex/slog-agent/transform/textract"
	"github.com/relex/slog-agent/transform/tif"
	"github.com/relex/slog-agent/transform/tmapvalue"
	"github.com/relex/slog-agent/transform/treplace"
	"github.com/relex/slog-agent/transform/tswitch"
	"github.com/relex/slog-agent/transform/ttruncate"
	"github.com/relex/slog-agent/transform/tunescape"
	"github.com/relex/slog-agent/zz_verif/sym"
)

type verifCounters struct{ counts map[string]int }

func (c *verifCounters) RegisterCustomCounter(label string) func(int) {
	if c.counts == nil {
		c.counts = map[string]int{}
	}
	return func(l int) { c.counts[label]++ }
}

type verifTC = bconfig.LogTransformConfigHolder

var verifProgSchema = base.MustNewLogSchema([]string{"app", "level", "msg", "tag"})

func verifSymField(name string, max int, ascii bool) string {
	n := sym.Choice(name+"Len", max+1)
	v := sym.String(name, n, n)
	for i := 0; i < len(v); i++ {
		if ascii {
			sym.Assume(v[i] < 0x80)
		}
	}
	return v
}

// verifPySlice is Python's s[start:end] with optional bounds.
func verifPySlice(s string, hasStart bool, start int, hasEnd bool, end int) string {
	n := len(s)
	if !hasStart {
		start = 0
	}
	if !hasEnd {
		end = n
	}
	if start < 0 {
		start += n
		if start < 0 {
			start = 0
		}
	}
	if end < 0 {
		end += n
		if end < 0 {
			end = 0
		}
	}
	if start > n {
		start = n
	}
	if end > n {
		end = n
	}
	if start >= end {
		return ""
	}
	return s[start:end]
}

func verifUnescapeRef(s string) string {
	var out []byte
	for i := 0; i < len(s); i++ {
		if s[i] != '\\' || i == len(s)-1 {
			out = append(out, s[i])
			continue
		}
		i++
		switch s[i] {
		case 'b':
			out = append(out, '\b')
		case 'f':
			out = append(out, '\f')
		case 'n':
			out = append(out, '\n')
		case 'r':
			out = append(out, '\r')
		case 't':
			out = append(out, '\t')
		case '\\':
			out = append(out, '\\')
		default:
			out = append(out, '\\', s[i])
		}
	}
	return string(out)
}

// VerifC15_Program: if / switch / block / drop / addFields / mapValue /
// delFields / truncate / unescape composed to depth 3; the reference is a
// direct reading of the documented semantics (first DROP wins, switch takes the
// first matching case only, empty fields are missing fields).
//
//verif:reach dropped passed case1 case2 truncated
//verif:paths 100000
func VerifC15_Program() {
	prog := []verifTC{
		{Value: &taddfields.Config{Fields: map[string]string{"tag": "${app[-2:]}-$level"}}},
		{Value: &tif.Config{Match: bmatch.VerifMatch("level", "!!str-eq", "dbg"), Then: []verifTC{
			{Value: &tdrop.Config{Match: bmatch.VerifMatch("app", "!!str-start", "x"), Percentage: 100, MetricLabel: "d1"}},
		}}},
		{Value: &tswitch.Config{Cases: []tswitch.CaseConfig{
			{Match: bmatch.VerifMatch("app", "!!str-eq", "a1"), Then: []verifTC{
				{Value: &tmapvalue.Config{Key: "level", Mapping: map[string]string{"inf": "I", "dbg": "D"}, DefaultValue: "?"}},
			}},
			{Match: bmatch.VerifMatch("app", "!!str-any", ""), Then: []verifTC{
				{Value: &tdelfields.Config{Keys: []string{"tag"}}},
			}},
		}}},
		{Value: &tblock.Config{Steps: []verifTC{
			{Value: &ttruncate.Config{Key: "msg", MaxLength: 2, Suffix: ".."}},
			{Value: &tunescape.Config{Key: "msg"}},
		}}},
	}
	sym.Assert(bsupport.VerifyTransformConfigs(prog, verifProgSchema, "prog") == nil, "program verifies")
	cnt := &verifCounters{}
	steps := bsupport.NewTransformsFromConfig(prog, verifProgSchema, logger.Root(), cnt)
	app := verifSymField("app", 3, false)
	levels := []string{"", "inf", "dbg", "zz"}
	level := levels[sym.Choice("level", 4)]
	msg := verifSymField("msg", 5, true)
	for i := 0; i < len(msg); i++ {
		sym.ConcretizeBool(msg[i] == '\\')
	}
	unescaped := sym.Bool("alreadyUnescaped")
	rec := verifProgSchema.NewTestRecord1(base.LogFields{app, level, msg, ""})
	rec.Unescaped = unescaped
	res := bsupport.RunTransforms(rec, steps)

	// ---- reference interpreter ----
	wTag := verifPySlice(app, true, -2, false, 0) + "-" + level
	wLevel, wMsg := level, msg
	drop := level == "dbg" && len(app) >= 1 && app[0] == 'x'
	if drop {
		sym.Assert(res == base.DROP, "matching record is dropped")
		sym.Assert(cnt.counts["d1"] == 1, "drop counted under its label")
		sym.Reach("dropped")
		return
	}
	sym.Assert(res == base.PASS, "other records pass")
	sym.Assert(cnt.counts["d1"] == 0, "no drop counted")
	if app == "a1" {
		if level != "" {
			switch level {
			case "inf":
				wLevel = "I"
			case "dbg":
				wLevel = "D"
			default:
				wLevel = "?"
			}
		}
		sym.Reach("case1")
	} else if len(app) > 0 {
		wTag = ""
		sym.Reach("case2")
	}
	if len(wMsg) > 2+2 {
		wMsg = wMsg[:2] + ".."
		sym.Reach("truncated")
	}
	if !unescaped {
		wMsg = verifUnescapeRef(wMsg)
	}
	sym.Assert(rec.Fields[0] == app, "app untouched")
	sym.Assert(rec.Fields[1] == wLevel, "level as mapped by the first matching case only")
	sym.Assert(rec.Fields[2] == wMsg, "msg truncated then unescaped")
	sym.Assert(rec.Fields[3] == wTag, "tag from template, deleted only by the second case")
	sym.Observe("msg", rec.Fields[2])
	sym.Reach("passed")
}

// VerifC15_TemplateSlices: ${v[start:end]} for all bounds in [-4,4] (and absent)
// and all values up to 4 bytes equals Python slicing.
//
//verif:reach sliced
func VerifC15_TemplateSlices() {
	bounds := []string{"", "-4", "-3", "-2", "-1", "0", "1", "2", "3", "4"}
	si := sym.Choice("start", len(bounds))
	ei := sym.Choice("end", len(bounds))
	tpl := "<${app[" + bounds[si] + ":" + bounds[ei] + "]}>"
	cfg := &taddfields.Config{Fields: map[string]string{"tag": tpl}}
	sym.Assert(cfg.VerifyConfig(verifProgSchema) == nil, "template accepted")
	tf := cfg.NewTransform(verifProgSchema, logger.Root(), nil)
	app := verifSymField("app", 4, false)
	rec := verifProgSchema.NewTestRecord1(base.LogFields{app, "", "", ""})
	tf.Transform(rec)
	want := "<" + verifPySlice(app, si > 0, si-5, ei > 0, ei-5) + ">"
	sym.Assert(rec.Fields[3] == want, "substring expression equals Python slicing")
	sym.Assert(rec.Fields[0] == app, "source field untouched")
	sym.Observe("tag", rec.Fields[3])
	sym.Reach("sliced")
}

// VerifC15_Truncate: values that are valid UTF-8 by construction (rune widths
// case-split 1..4), maxLen 1..4: result = longest prefix of whole runes within
// maxLen + suffix, untouched when short enough.
//
//verif:reach cut uncut
//verif:paths 100000
func VerifC15_Truncate() {
	maxLen := sym.Choice("maxLen", 4) + 1
	limit := 8
	if sym.Tier() > 0 {
		limit = 10
	}
	var vb []byte
	var bounds []int // rune boundaries
	for len(vb) < limit {
		w := sym.Choice("runeWidth", 5)
		if w == 0 || len(vb)+w > limit {
			break
		}
		r := sym.Bytes("rune", w, w)
		switch w {
		case 1:
			sym.Assume(r[0] < 0x80)
		case 2:
			sym.Assume(r[0] >= 0xC2 && r[0] <= 0xDF)
		case 3:
			sym.Assume(r[0] >= 0xE1 && r[0] <= 0xEC)
		case 4:
			sym.Assume(r[0] >= 0xF1 && r[0] <= 0xF3)
		}
		for i := 1; i < w; i++ {
			sym.Assume(r[i] >= 0x80 && r[i] <= 0xBF)
		}
		vb = append(vb, r...)
		bounds = append(bounds, len(vb))
	}
	orig := string(vb)
	cfg := &ttruncate.Config{Key: "msg", MaxLength: maxLen, Suffix: ".."}
	sym.Assert(cfg.VerifyConfig(verifProgSchema) == nil, "config accepted")
	tf := cfg.NewTransform(verifProgSchema, logger.Root(), nil)
	rec := verifProgSchema.NewTestRecord1(base.LogFields{"", "", string(vb), ""})
	sym.Assert(tf.Transform(rec) == base.PASS, "truncate passes")
	got := rec.Fields[2]
	if len(orig) > maxLen+2 {
		cut := 0
		for _, b := range bounds {
			if b <= maxLen {
				cut = b
			}
		}
		sym.Assert(got == orig[:cut]+"..", "cut at the last rune boundary within maxLen, then suffix")
		sym.Reach("cut")
	} else {
		sym.Assert(got == orig, "short value untouched")
		sym.Reach("uncut")
	}
	sym.Observe("got", got)
}

// VerifC15_MapValue: mapValue for every value of up to 2 bytes: a listed value
// becomes its target - the empty target included (that is how a field is
// cleared) -, any other non-empty value becomes the default, an empty field stays empty.
//
//verif:reach listed listed-empty default empty
func VerifC15_MapValue() {
	def := []string{"?", ""}[sym.Choice("default", 2)]
	cfg := &tmapvalue.Config{Key: "level", Mapping: map[string]string{"a": "A", "bb": "", "c": "c"}, DefaultValue: def}
	sym.Assert(cfg.VerifyConfig(verifProgSchema) == nil, "configuration accepted")
	tf := cfg.NewTransform(verifProgSchema, logger.Root(), nil)
	v := verifSymField("level", 2, false)
	rec := verifProgSchema.NewTestRecord1(base.LogFields{"", v, "", ""})
	sym.Assert(tf.Transform(rec) == base.PASS, "mapValue never drops")
	got := rec.Fields[1]
	switch {
	case v == "":
		sym.Assert(got == "", "an empty field is left alone")
		sym.Reach("empty")
	case v == "a":
		sym.Assert(got == "A", "a listed value becomes its target")
		sym.Reach("listed")
	case v == "bb":
		sym.Assert(got == "", "a value listed with an empty target is cleared, not defaulted")
		sym.Reach("listed-empty")
	case v == "c":
		sym.Assert(got == "c", "a listed value becomes its target")
	default:
		sym.Assert(got == def, "an unlisted value becomes the default")
		sym.Reach("default")
	}
}

// VerifC15_UnescapeOnce: two unescape steps on the same field (a transform
// followed by a nested one, as a second transform or the output's unescape
// rewriter would be): the text is unescaped exactly once - for every value of
// up to 4 bytes with every backslash pattern -, and the record is marked.
//
//verif:reach escaped plain
//verif:paths 100000
func VerifC15_UnescapeOnce() {
	prog := []verifTC{
		{Value: &tunescape.Config{Key: "msg"}},
		{Value: &tunescape.Config{Key: "msg"}},
	}
	sym.Assert(bsupport.VerifyTransformConfigs(prog, verifProgSchema, "prog") == nil, "program verifies")
	steps := bsupport.NewTransformsFromConfig(prog, verifProgSchema, logger.Root(), &verifCounters{})
	once := bsupport.NewTransformsFromConfig(prog[:1], verifProgSchema, logger.Root(), &verifCounters{})
	n := sym.Choice("len", 5)
	v := sym.String("msg", n, n)
	bs := false
	for i := 0; i < n; i++ {
		if sym.ConcretizeBool(v[i] == '\\') {
			bs = true
		}
	}
	r1 := verifProgSchema.NewTestRecord1(base.LogFields{"", "", string(append([]byte{}, v...)), ""})
	r2 := verifProgSchema.NewTestRecord1(base.LogFields{"", "", string(append([]byte{}, v...)), ""})
	bsupport.RunTransforms(r1, once)
	bsupport.RunTransforms(r2, steps)
	sym.Assert(r2.Fields[2] == r1.Fields[2], "a second unescape step leaves the unescaped text alone")
	sym.Assert(r1.Unescaped && r2.Unescaped, "the record is marked as unescaped")
	if bs {
		sym.Reach("escaped")
	} else {
		sym.Reach("plain")
	}
}

func verifIsDigit(b byte) bool { return b >= '0' && b <= '9' }
func verifIsLower(b byte) bool { return b >= 'a' && b <= 'z' }

// VerifC15_ReplaceExtract: the regexp-based transforms against a hand-written
// reference. replace `[0-9]+` -> "N" (and "<$0>") on every value of up to 3 (thorough: 4)
// bytes: every maximal digit run becomes the replacement, every other byte is
// kept, an empty field is left alone. extract `^(?P<level>[a-z]+)=(?P<tag>[0-9]*)`
// on every value of up to 3 (4) bytes: on a match the named captures overwrite
// their fields (an empty capture clears the field), the source field is
// untouched, without a match nothing changes. The regexp package itself is
// executed by the engine (concrete pattern, symbolic input).
//
//verif:reach replaced kept matched unmatched
//verif:paths 200000
//verif:steps 80000000
func VerifC15_ReplaceExtract() {
	maxLen := 3
	if sym.Tier() > 0 {
		maxLen = 4
	}
	n := sym.Choice("len", maxLen+1)
	v := sym.String("msg", n, n)
	if sym.Choice("transform", 2) == 0 {
		withGroup := sym.Choice("replacement", 2) == 1
		repl := "N"
		if withGroup {
			repl = "<$0>"
		}
		cfg := &treplace.Config{Key: "msg", Pattern: "[0-9]+", Replacement: repl}
		sym.Assert(cfg.VerifyConfig(verifProgSchema) == nil, "configuration accepted")
		tf := cfg.NewTransform(verifProgSchema, logger.Root(), nil)
		rec := verifProgSchema.NewTestRecord1(base.LogFields{"a", "l", string(append([]byte{}, v...)), "t"})
		sym.Assert(tf.Transform(rec) == base.PASS, "replace never drops")
		var want []byte
		any := false
		for i := 0; i < n; {
			if !verifIsDigit(v[i]) {
				want = append(want, v[i])
				i++
				continue
			}
			j := i
			for j < n && verifIsDigit(v[j]) {
				j++
			}
			if withGroup {
				want = append(want, '<')
				want = append(want, v[i:j]...)
				want = append(want, '>')
			} else {
				want = append(want, 'N')
			}
			any = true
			i = j
		}
		sym.Assert(rec.Fields[2] == string(want), "every maximal match is replaced and nothing else changes")
		sym.Assert(rec.Fields[0] == "a" && rec.Fields[1] == "l" && rec.Fields[3] == "t", "replace touches only its own field")
		if any {
			sym.Reach("replaced")
		} else {
			sym.Reach("kept")
		}
		return
	}
	cfg := &textract.Config{Key: "msg", Pattern: "^(?P<level>[a-z]+)=(?P<tag>[0-9]*)"}
	sym.Assert(cfg.VerifyConfig(verifProgSchema) == nil, "configuration accepted")
	tf := cfg.NewTransform(verifProgSchema, logger.Root(), nil)
	rec := verifProgSchema.NewTestRecord1(base.LogFields{"a", "old", string(append([]byte{}, v...)), "oldtag"})
	sym.Assert(tf.Transform(rec) == base.PASS, "extract never drops")
	i := 0
	for i < n && verifIsLower(v[i]) {
		i++
	}
	if i > 0 && i < n && v[i] == '=' {
		j := i + 1
		for j < n && verifIsDigit(v[j]) {
			j++
		}
		sym.Assert(rec.Fields[1] == v[:i], "first named capture overwrites its field")
		sym.Assert(rec.Fields[3] == v[i+1:j], "second named capture overwrites its field (empty capture clears it)")
		sym.Reach("matched")
	} else {
		sym.Assert(rec.Fields[1] == "old" && rec.Fields[3] == "oldtag", "without a match nothing changes")
		sym.Reach("unmatched")
	}
	sym.Assert(rec.Fields[0] == "a" && rec.Fields[2] == v, "extract leaves the source field and unrelated fields alone")
}
