package run

import (
	"github.com/relex/gotils/logger"
	"github.com/relex/gotils/promexporter/promreg"
	"github.com/relex/slog-agent/base"
	"github.com/relex/slog-agent/zz_verif/fakes"
)

func verifMetrics() promreg.MetricCreator { return fakes.NewMetrics() }

func verifNoPipeline(parentLogger logger.Logger, metricCreator promreg.MetricCreator,
	input <-chan []*base.LogRecord, bufferID string, outputTag string, onStopped func()) {
}
