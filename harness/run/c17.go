package run

// C17 — configuration reload is safe at any moment.
// Real ReloadableOrchestrator / ReloadableSink under the scheduler layer, with
// recording downstream orchestrators (one per configuration generation).

import (
	"errors"

	"github.com/relex/slog-agent/base"
	"github.com/relex/slog-agent/zz_verif/fakes"
	"github.com/relex/slog-agent/zz_verif/sym"
)

type verifReloadMon struct {
	gens      []*verifGen
	delivered int
}

type verifGen struct {
	mon      *verifReloadMon
	n        int
	shutdown bool
	sinks    []*verifGenSink
}

type verifGenSink struct {
	gen      *verifGen
	closed   bool
	accepted int
}

func (m *verifReloadMon) newGen() *verifGen {
	for _, old := range m.gens {
		// the new orchestrator scans the queue directories when it starts: the old pipelines must have saved their chunks by then
		sym.Assert(old.shutdown, "the old pipeline set is shut down (its queued chunks saved) before the new one is started")
	}
	g := &verifGen{mon: m, n: len(m.gens)}
	m.gens = append(m.gens, g)
	return g
}

func (g *verifGen) NewSink(clientAddress string, clientNumber base.ClientNumber) base.BufferReceiverSink {
	sym.Assert(!g.shutdown, "no sink is created on a pipeline set that has been shut down")
	s := &verifGenSink{gen: g}
	g.sinks = append(g.sinks, s)
	return s
}

func (g *verifGen) Shutdown() {
	for _, s := range g.sinks {
		sym.Assert(s.closed, "every sink of a generation is closed (flushed) before the generation shuts down")
	}
	g.shutdown = true
}

func (s *verifGenSink) Accept(buffer []*base.LogRecord) {
	sym.Assert(!s.gen.shutdown, "no record is handed to a pipeline set that has been shut down")
	sym.Assert(!s.closed, "no record is handed to a closed sink")
	s.accepted += len(buffer)
	s.gen.mon.delivered += len(buffer)
}

func (s *verifGenSink) Tick() {
	sym.Assert(!s.gen.shutdown && !s.closed, "no tick reaches a closed or shut-down sink")
}

func (s *verifGenSink) Close() {
	sym.Assert(!s.closed, "a sink is closed once")
	s.closed = true
}

var verifRecord = verifProgSchema.NewTestRecord1(base.LogFields{"a", "b", "c", ""})

// verifReloadScenario: two connections (register, two Accepts, close) and one
// reload, interleaved by the scheduler.
func verifReloadScenario(sameSlot bool) {
	ok, fail := &fakes.PromCounter{}, &fakes.PromCounter{}
	defer func(a, b interface{}) {}(reloadSuccessCounter, reloadFailureCounter)
	reloadSuccessCounter, reloadFailureCounter = ok, fail
	mon := &verifReloadMon{}
	gen0 := mon.newGen()
	reloadFails := sym.Choice("reloadOutcome", 2) == 1
	rorc := NewReloadableOrchestrator(gen0, func() (CompleteReloadingFunc, error) {
		if reloadFails {
			return nil, errors.New("invalid configuration (scripted)")
		}
		return func() base.Orchestrator { return mon.newGen() }, nil
	})
	sent := 0
	done := make(chan struct{}, 3)
	socket1Closed := make(chan struct{})
	conn := func(addr string, num base.ClientNumber, waitFor chan struct{}, signalSocketClosed chan struct{}) {
		if waitFor != nil {
			<-waitFor // the descriptor can be reused as soon as the first socket is closed
		}
		sink := rorc.NewSink(addr, num)
		for i := 0; i < 1+sym.Tier(); i++ {
			sink.Accept([]*base.LogRecord{verifRecord})
			sent++
			sym.Yield()
		}
		sink.Tick()
		if signalSocketClosed != nil {
			close(signalSocketClosed) // runConnection closes the socket before the deferred sink.Close()
			sym.Yield()
		}
		sink.Close()
		done <- struct{}{}
	}
	if sameSlot {
		go conn("client1", 5, nil, socket1Closed)
		go conn("client2", 5, socket1Closed, nil)
	} else {
		go conn("client1", 5, nil, nil)
		go conn("client2", 6, nil, nil)
	}
	go func() {
		sym.Yield()
		rorc.reload()
		done <- struct{}{}
	}()
	for i := 0; i < 3; i++ {
		<-done
	}
	if reloadFails {
		sym.Assert(len(mon.gens) == 1 && !gen0.shutdown && fail.N == 1 && ok.N == 0, "a failed reload changes nothing and is counted as a failure")
		sym.Reach("reload-failed")
	} else {
		sym.Assert(len(mon.gens) == 2 && gen0.shutdown && ok.N == 1 && fail.N == 0, "a successful reload swaps the pipeline set once and is counted")
		sym.Reach("reloaded")
	}
	sym.Assert(mon.delivered == sent, "every record accepted before, during and after the reload reaches a live pipeline set")
	for _, g := range mon.gens {
		for _, s := range g.sinks {
			sym.Assert(s.closed, "every sink is closed when its connection ends or its generation is replaced")
		}
	}
	sym.Reach("done")
}

// VerifC17_ReloadVsConnections: two connections with distinct client numbers.
//
//verif:native off
//verif:preempt 1
//verif:preemptcalls github.com/relex/slog-agent/run
//verif:delays 1
//verif:thorough delays 2
//verif:steps 40000000
//verif:reach done reloaded reload-failed
//verif:paths 400000
func VerifC17_ReloadVsConnections() { verifReloadScenario(false) }

// VerifC17_SlotReuse: the second connection reuses the client number of the first as soon as the first socket is closed.
//
//verif:native off
//verif:preempt 1
//verif:delays 1
//verif:thorough delays 2
//verif:steps 40000000
//verif:reach done reloaded reload-failed
//verif:paths 400000
func VerifC17_SlotReuse() { verifReloadScenario(true) }
