package run

// C16 — what validation accepts can be built and run; validation itself never
// panics. Config structs carry symbolic field names (a schema name, an unknown
// name, the empty string), symbolic numbers, symbolic small patterns.
// (The YAML file level - type dispatch, unknown-field rejection - is outside.)

import (
	"github.com/relex/gotils/logger"
	"github.com/relex/slog-agent/base"
	"github.com/relex/slog-agent/base/bconfig"
	"github.com/relex/slog-agent/base/bmatch"
	"github.com/relex/slog-agent/base/bsupport"
	"github.com/relex/slog-agent/orchestrate/obykeyset"
	"github.com/relex/slog-agent/output/fluentdforward"
	"github.com/relex/slog-agent/rewrite/rinline"
	"github.com/relex/slog-agent/rewrite/runescape"
	"github.com/relex/slog-agent/transform/taddfields"
	"github.com/relex/slog-agent/transform/tdelfields"
	"github.com/relex/slog-agent/transform/tdrop"
	"github.com/relex/slog-agent/transform/textract"
	"github.com/relex/slog-agent/transform/textractspecial"
	"github.com/relex/slog-agent/transform/tif"
	"github.com/relex/slog-agent/transform/tmapvalue"
	"github.com/relex/slog-agent/transform/tparsetime"
	"github.com/relex/slog-agent/transform/tredactemail"
	"github.com/relex/slog-agent/transform/treplace"
	"github.com/relex/slog-agent/transform/tswitch"
	"github.com/relex/slog-agent/transform/ttruncate"
	"github.com/relex/slog-agent/transform/tunescape"
	"github.com/relex/slog-agent/util"
	"github.com/relex/slog-agent/zz_verif/sym"
)

func verifName(site string) string {
	return []string{"msg", "nope", "", "app"}[sym.Choice(site, 4)]
}

func verifName3(site string) string {
	return []string{"msg", "nope", "app"}[sym.Choice(site, 3)]
}

// verifAcceptedRuns: if the config verifies, it must build and process a record without panicking.
func verifAcceptedRuns(tc verifTC) {
	err := bsupport.VerifyTransformConfigs([]verifTC{tc}, verifProgSchema, "t") // obligation: validation never panics
	if err != nil {
		sym.Reach("rejected")
		return
	}
	steps := bsupport.NewTransformsFromConfig([]verifTC{tc}, verifProgSchema, logger.Root(), &verifCounters{}) // obligation: no panic
	n := sym.Choice("msgLen", 4)
	rec := verifProgSchema.NewTestRecord1(base.LogFields{"a1", "inf", sym.String("msg", n, n), ""})
	rec.RawLength = 9
	bsupport.RunTransforms(rec, steps) // obligation: no panic
	sym.Reach("accepted")
}

// VerifC16_FieldNameSites: every site that references a schema field, in every transform type.
//
//verif:reach accepted rejected
//verif:paths 100000
func VerifC16_FieldNameSites() {
	var tc verifTC
	switch sym.Choice("transform", 13) {
	case 0:
		tc = verifTC{Value: &ttruncate.Config{Key: verifName("key"), MaxLength: sym.IntRange("maxLen", -1, 3), Suffix: []string{"", ".."}[sym.Choice("suffix", 2)]}}
	case 1:
		tc = verifTC{Value: &tdelfields.Config{Keys: []string{"app", verifName("key")}[:sym.Choice("numKeys", 3)]}}
	case 2:
		tc = verifTC{Value: &tmapvalue.Config{Key: verifName("key"), Mapping: map[string]string{"a": "b"}, DefaultValue: "d"}}
	case 3:
		tc = verifTC{Value: &tparsetime.Config{Key: verifName("key"), ErrorLabel: []string{"", "e"}[sym.Choice("label", 2)]}}
	case 4:
		tc = verifTC{Value: &tredactemail.Config{Key: verifName("key"), MetricLabel: []string{"", "r"}[sym.Choice("label", 2)]}}
	case 5:
		tc = verifTC{Value: &tunescape.Config{Key: verifName("key")}}
	case 6:
		c := &textractspecial.Config{Key: verifName("key"), DestKey: verifName("destKey"), Pattern: "\\[*\\]", MaxLength: sym.IntRange("maxLen", -1, 3)}
		c.Type = "extractHead"
		tc = verifTC{Value: c}
	case 7:
		c := &textractspecial.Config{Key: verifName("key"), DestKey: verifName("destKey"), Pattern: "-[a-z]", MaxLength: 5}
		c.Type = "extractTail"
		tc = verifTC{Value: c}
	case 8:
		tc = verifTC{Value: &tdrop.Config{Match: verifMatchCfg(), Percentage: sym.IntRange("percentage", -1, 101), MetricLabel: []string{"", "d"}[sym.Choice("label", 2)]}}
	case 9:
		tc = verifTC{Value: &tif.Config{Match: verifMatchCfg(), Then: []verifTC{{Value: &tdelfields.Config{Keys: []string{verifName("innerKey")}}}}[:sym.Choice("numThen", 2)]}}
	case 10:
		tc = verifTC{Value: &taddfields.Config{Fields: map[string]string{verifName("dest"): "x-$" + []string{"app", "nope"}[sym.Choice("var", 2)]}}}
	case 11:
		tc = verifTC{Value: &taddfields.Config{Fields: map[string]string{"tag": []string{"${app[:2]}", "${nope}", "${app", "$$", "${app[x]}"}[sym.Choice("template", 5)]}}}
	case 12:
		tc = verifTC{Value: &taddfields.Config{Fields: map[string]string{}}}
	}
	verifAcceptedRuns(tc)
}

func verifMatchCfg() bmatch.LogMatcherConfig {
	switch sym.Choice("match", 3) {
	case 0:
		return bmatch.LogMatcherConfig{}
	case 1:
		return bmatch.VerifMatch("nope", "!!str-eq", "x")
	}
	return bmatch.VerifMatch("msg", "!!str-start", "x")
}

// VerifC16_ExtractPatterns: every extractHead/extractTail pattern of up to 4
// bytes over the pattern alphabet: accepted patterns build and run.
//
//verif:reach accepted rejected
//verif:paths 200000
//verif:unwind 300
func VerifC16_ExtractPatterns() {
	alphabet := "[]*\\-^az"
	n := sym.Choice("patternLen", 3+sym.Tier()) + 1
	pb := make([]byte, n)
	for i := range pb {
		pb[i] = alphabet[sym.Choice("patternChar", len(alphabet))]
	}
	c := &textractspecial.Config{Key: "msg", DestKey: "tag", Pattern: string(pb), MaxLength: 4}
	c.Type = []string{"extractHead", "extractTail"}[sym.Choice("position", 2)]
	verifAcceptedRuns(verifTC{Value: c})
}

// VerifC16_TemplateBounds: substring bounds of up to 20 digits in a template: validation reports, never panics.
//
//verif:reach accepted
func VerifC16_TemplateBounds() {
	digits := []string{"1", "99", "2147483648", "9223372036854775807", "9223372036854775808", "99999999999999999999"}
	a := digits[sym.Choice("start", len(digits))]
	b := digits[sym.Choice("end", len(digits))]
	sign := []string{"", "-"}[sym.Choice("sign", 2)]
	tc := verifTC{Value: &taddfields.Config{Fields: map[string]string{"tag": "${app[" + sign + a + ":" + b + "]}"}}}
	verifAcceptedRuns(tc)
}

// VerifC16_FluentdSerialization: field names in the fluentd output's serialization section.
//
//verif:reach accepted rejected
func VerifC16_FluentdSerialization() {
	cfg := &fluentdforward.Config{}
	cfg.Serialization.EnvironmentFields = []string{"app", verifName("envField")}[:sym.Choice("numEnv", 3)]
	cfg.Serialization.HiddenFields = []string{verifName("hiddenField")}[:sym.Choice("numHidden", 2)]
	switch sym.Choice("rewrite", 4) {
	case 1:
		cfg.Serialization.RewriteFields = map[string][]bconfig.LogRewriterConfigHolder{verifName("rewriteField"): {{Value: &runescape.Config{}}}}
	case 2:
		cfg.Serialization.RewriteFields = map[string][]bconfig.LogRewriterConfigHolder{"msg": {{Value: &rinline.Config{Field: verifName("inlineField")}}, {Value: &runescape.Config{}}}}
	case 3:
		cfg.Serialization.RewriteFields = map[string][]bconfig.LogRewriterConfigHolder{"msg": {{Value: &rinline.Config{Field: "app"}}}}
	}
	cfg.MessageMode = "CompressedPackedForward"
	cfg.Upstream.Address = "localhost:24224"
	cfg.Upstream.MaxDuration = 1
	if err := cfg.VerifyConfig(verifProgSchema); err != nil { // obligation: never panics
		sym.Reach("rejected")
		return
	}
	s := cfg.NewSerializer(logger.Root(), verifProgSchema, "tag") // obligation: no panic
	rec := verifProgSchema.NewTestRecord1(base.LogFields{"a1", "inf", "m", ""})
	s.SerializeRecord(rec)
	sym.Reach("accepted")
}

// VerifC16_OrchestrationKeys: key names and tag template of the byKeySet orchestrator,
// and the rule that a metric key must not also be an orchestration key.
//
//verif:reach accepted rejected
func VerifC16_OrchestrationKeys() {
	oc := &obykeyset.Config{Keys: []string{verifName3("key1"), verifName3("key2")}[:sym.Choice("numKeys", 3)],
		TagTemplate: []string{"t.$app", "t.$nope", "", "t.${app[1:]}"}[sym.Choice("tag", 4)]}
	conf := Config{MetricKeys: []string{verifName3("metricKey1"), verifName3("metricKey2")}[:sym.Choice("numMetricKeys", 3)]}
	keys, err := oc.VerifyConfig(verifProgSchema)
	if err == nil {
		err = checkMetricKeys(conf, verifProgSchema, keys)
	}
	if err != nil {
		sym.Reach("rejected")
		return
	}
	for _, mk := range conf.MetricKeys {
		for _, k := range oc.Keys {
			sym.Assert(mk != k, "a metric key that is also an orchestration key is rejected")
		}
	}
	// what the orchestrator and every pipeline do with these names
	locs, lerr := verifProgSchema.CreateFieldLocators(conf.MetricKeys)
	sym.Assert(lerr == nil, "accepted metric keys exist")
	o := obykeyset.NewOrchestrator(logger.Root(), verifProgSchema, oc.Keys, oc.TagTemplate, verifMetrics(), verifNoPipeline, nil) // obligation: no panic
	_ = o
	base.NewLogProcessCounter(verifMetrics(), verifProgSchema, locs, []string{"out"})
	sym.Reach("accepted")
}

// VerifC16_RegexpTransforms: the regexp-based transforms (extract, replace):
// key names, capture names (a schema field / an unknown name / unnamed) and
// patterns (valid / not compilable / empty) by symbolic choice: whatever
// verifies can be built and processes a record of up to 3 arbitrary bytes. The
// regexp package itself is executed by the engine (concrete pattern, symbolic input).
//
//verif:reach accepted rejected
//verif:paths 100000
//verif:steps 50000000
func VerifC16_RegexpTransforms() {
	var tc verifTC
	switch sym.Choice("transform", 2) {
	case 0:
		capture := []string{"(?P<app>", "(?P<nope>", "("}[sym.Choice("capture", 3)]
		pattern := []string{"^" + capture + "[a-z]+)=", "^" + capture + "[a-z]+=", ""}[sym.Choice("pattern", 3)]
		tc = verifTC{Value: &textract.Config{Key: verifName("key"), Pattern: pattern}}
	case 1:
		pattern := []string{"[0-9]+", "[0-9", ""}[sym.Choice("pattern", 3)]
		tc = verifTC{Value: &treplace.Config{Key: verifName("key"), Pattern: pattern, Replacement: []string{"N", "<$0>"}[sym.Choice("replacement", 2)]}}
	}
	verifAcceptedRuns(tc)
}

// VerifC16_AcceptedTemplateSlicesRun: every accepted substring template processes every value without panicking.
//
//verif:reach sliced
func VerifC16_AcceptedTemplateSlicesRun() { VerifC15_TemplateSlices() }

// VerifC06_TagWindowsFollowTheValue: tag templates may carry substring windows
// (${key[-N:]}, ${key[a:b]}); the tag separates two key values only if the
// window is computed as documented for every value (C15's slice harness read for C06).
//
//verif:reach sliced
func VerifC06_TagWindowsFollowTheValue() { VerifC15_TemplateSlices() }

// VerifC12_ConcurrentPipelinesAgree: for each transform type that keeps scratch
// state (templates, unescape, redaction, extraction, truncation), two pipeline
// instances built from one configuration process different records at the same
// time (one preemption at any call into the agent's packages): each result
// equals what a fresh instance produces for that record alone.
//
//verif:native off
//verif:preempt 1
//verif:preemptcalls github.com/relex/slog-agent/
//verif:delays 1
//verif:reach done
//verif:paths 200000
//verif:steps 50000000
func VerifC12_ConcurrentPipelinesAgree() {
	var tc verifTC
	switch sym.Choice("transform", 6) {
	case 0:
		tc = verifTC{Value: &taddfields.Config{Fields: map[string]string{"tag": "a=$app l=$level"}}}
	case 1:
		tc = verifTC{Value: &tunescape.Config{Key: "msg"}}
	case 2:
		tc = verifTC{Value: &tredactemail.Config{Key: "msg", MetricLabel: "r"}}
	case 3:
		c := &textractspecial.Config{Key: "msg", DestKey: "tag", Pattern: "\\[*\\]", MaxLength: 10}
		c.Type = "extractHead"
		tc = verifTC{Value: c}
	case 4:
		tc = verifTC{Value: &ttruncate.Config{Key: "msg", MaxLength: 4, Suffix: ".."}}
	case 5:
		tc = verifTC{Value: &treplace.Config{Key: "msg", Pattern: "[0-9]+", Replacement: "N"}}
	}
	sym.Assert(bsupport.VerifyTransformConfigs([]verifTC{tc}, verifProgSchema, "t") == nil, "configuration accepted")
	inputs := []base.LogFields{
		{"app1", "inf", "[x1] a\\nb bob@ex.com 12", ""},
		{"ap2", "warning", "[yy22] c\\td ann@host.org 3456", ""},
	}
	// field values live in writable record memory (several transforms edit in place)
	mutable := func(in base.LogFields) base.LogFields {
		out := make(base.LogFields, len(in))
		for i, f := range in {
			out[i] = util.StringFromBytes(append([]byte{}, f...))
		}
		return out
	}
	run := func(in base.LogFields) base.LogFields {
		steps := bsupport.NewTransformsFromConfig([]verifTC{tc}, verifProgSchema, logger.Root(), &verifCounters{})
		rec := verifProgSchema.NewTestRecord1(mutable(in))
		rec.RawLength = 30
		bsupport.RunTransforms(rec, steps)
		return rec.Fields
	}
	want := []base.LogFields{run(inputs[0]), run(inputs[1])}
	var got [2]base.LogFields
	stepsA := bsupport.NewTransformsFromConfig([]verifTC{tc}, verifProgSchema, logger.Root(), &verifCounters{})
	stepsB := bsupport.NewTransformsFromConfig([]verifTC{tc}, verifProgSchema, logger.Root(), &verifCounters{})
	done := make(chan struct{}, 2)
	worker := func(i int, steps []base.LogTransformFunc) {
		rec := verifProgSchema.NewTestRecord1(mutable(inputs[i]))
		rec.RawLength = 30
		bsupport.RunTransforms(rec, steps)
		got[i] = append(base.LogFields{}, rec.Fields...)
		for f := range got[i] {
			got[i][f] = string(append([]byte{}, got[i][f]...)) // what the output stage would serialize now
		}
		done <- struct{}{}
	}
	go worker(0, stepsA)
	go worker(1, stepsB)
	<-done
	<-done
	for i := 0; i < 2; i++ {
		for f := range want[i] {
			sym.Assert(got[i][f] == want[i][f], "a record processed while another pipeline runs gets the result it gets alone")
		}
	}
	sym.Reach("done")
}

// VerifC16_MatchConditionShapes: the `match` block of if / switch / drop with a
// condition as the YAML loader delivers it for a well-formed value, for a value
// left out (`app:` / `~` / `null`: the zero matcher, the custom unmarshaller is
// not called for null nodes) and for an unknown field: whatever is accepted
// builds and processes a record of up to 3 arbitrary bytes without panicking.
//
//verif:reach accepted rejected
//verif:paths 100000
func VerifC16_MatchConditionShapes() {
	var match bmatch.LogMatcherConfig
	switch sym.Choice("condition", 3) {
	case 0:
		match = bmatch.VerifMatch("app", "!!str-start", "a")
	case 1:
		match = bmatch.VerifNullMatch("app")
	case 2:
		match = bmatch.VerifMatch("nope", "!!str-start", "a")
	}
	inner := []verifTC{{Value: &tdelfields.Config{Keys: []string{"tag"}}}}
	var tc verifTC
	switch sym.Choice("transform", 3) {
	case 0:
		tc = verifTC{Value: &tif.Config{Match: match, Then: inner}}
	case 1:
		tc = verifTC{Value: &tswitch.Config{Cases: []tswitch.CaseConfig{{Match: match, Then: inner}}}}
	case 2:
		tc = verifTC{Value: &tdrop.Config{Match: match, Percentage: 100, MetricLabel: "d"}}
	}
	verifAcceptedRuns(tc)
}

// VerifC12_BatchedRecordsStayIntact: one transform instance (as an extraction
// step of the input, where records are batched before anything serializes
// them) processes two records one after the other, for each transform type
// that writes field values; the message of the second record has a symbolic
// length class and symbolic bytes at the places that matter (a backslash, a
// digit, an '@'): afterwards the FIRST record still holds exactly what a
// fresh instance produces for it alone - its field values do not live in
// scratch memory that the next record overwrites.
//
//verif:reach done
//verif:paths 100000
func VerifC12_BatchedRecordsStayIntact() {
	var tc verifTC
	switch sym.Choice("transform", 7) {
	case 0:
		tc = verifTC{Value: &taddfields.Config{Fields: map[string]string{"tag": "a=$app l=$level"}}}
	case 1:
		tc = verifTC{Value: &tunescape.Config{Key: "msg"}}
	case 2:
		tc = verifTC{Value: &tredactemail.Config{Key: "msg", MetricLabel: "r"}}
	case 3:
		c := &textractspecial.Config{Key: "msg", DestKey: "tag", Pattern: "\\[*\\]", MaxLength: 10}
		c.Type = "extractHead"
		tc = verifTC{Value: c}
	case 4:
		tc = verifTC{Value: &ttruncate.Config{Key: "msg", MaxLength: 4, Suffix: ".."}}
	case 5:
		tc = verifTC{Value: &treplace.Config{Key: "msg", Pattern: "[0-9]+", Replacement: "N"}}
	case 6:
		tc = verifTC{Value: &tmapvalue.Config{Key: "level", Mapping: map[string]string{"inf": "I"}, DefaultValue: "?"}}
	}
	sym.Assert(bsupport.VerifyTransformConfigs([]verifTC{tc}, verifProgSchema, "t") == nil, "configuration accepted")
	second := []byte("[yy2] c\\td ann@host.org 3456 and some more text")
	second = second[:[]int{12, 24, len(second)}[sym.Choice("secondLen", 3)]]
	second[7] = sym.Byte("b7") // the backslash position
	second[5] = sym.Byte("b5")
	inputs := []base.LogFields{
		{"app1", "inf", "[x1] a\\nb bob@ex.com 12", ""},
		{"ap2", "warning", string(second), ""},
	}
	mutable := func(in base.LogFields) base.LogFields {
		out := make(base.LogFields, len(in))
		for i, f := range in {
			out[i] = util.StringFromBytes(append([]byte{}, f...))
		}
		return out
	}
	fresh := bsupport.NewTransformsFromConfig([]verifTC{tc}, verifProgSchema, logger.Root(), &verifCounters{})
	alone := verifProgSchema.NewTestRecord1(mutable(inputs[0]))
	alone.RawLength = 30
	bsupport.RunTransforms(alone, fresh)
	want := make([]string, len(alone.Fields))
	for f := range alone.Fields {
		want[f] = string(append([]byte{}, alone.Fields[f]...))
	}
	steps := bsupport.NewTransformsFromConfig([]verifTC{tc}, verifProgSchema, logger.Root(), &verifCounters{})
	r1 := verifProgSchema.NewTestRecord1(mutable(inputs[0]))
	r2 := verifProgSchema.NewTestRecord1(mutable(inputs[1]))
	r1.RawLength, r2.RawLength = 30, 30
	bsupport.RunTransforms(r1, steps)
	bsupport.RunTransforms(r2, steps) // obligation: no panic for any second record
	for f := range want {
		sym.Assert(r1.Fields[f] == want[f], "a record still held in a batch keeps its own field values while the same transform instance processes the next record")
	}
	sym.Reach("done")
}

// VerifC14_BatchedRecordsStayIntact: the same run read for C14 (text outside the redacted spans is preserved - also
// after the transform has moved on to the next record).
//
//verif:reach done
//verif:paths 100000
func VerifC14_BatchedRecordsStayIntact() { VerifC12_BatchedRecordsStayIntact() }
