package obykeyset

// C06 — routing, queue ids and tags follow exactly the record's own key values.

import (
	"strings"
	"time"

	"github.com/relex/gotils/logger"
	"github.com/relex/gotils/promexporter/promreg"
	"github.com/relex/slog-agent/base"
	"github.com/relex/slog-agent/defs"
	"github.com/relex/slog-agent/zz_verif/fakes"
	"github.com/relex/slog-agent/zz_verif/sym"
)

type verifPipeline struct {
	id, tag string
	input   <-chan []*base.LogRecord
}

type verifStarter struct{ pipes []*verifPipeline }

func (s *verifStarter) start(parentLogger logger.Logger, metricCreator promreg.MetricCreator,
	input <-chan []*base.LogRecord, bufferID string, outputTag string, onStopped func()) {
	s.pipes = append(s.pipes, &verifPipeline{id: bufferID, tag: outputTag, input: input})
}

var verifSchema = base.MustNewLogSchema([]string{"app", "level", "msg"})

func verifKeyValue(name string, maxLen int, ascii bool) string {
	n := sym.Choice(name+"Len", maxLen+1)
	v := sym.String(name, n, n)
	for i := 0; i < len(v); i++ {
		if ascii {
			sym.Assume(v[i] < 0x80)
		}
	}
	return v
}

func verifHasComma(vals ...string) bool {
	c := false
	for _, v := range vals {
		if strings.IndexByte(v, ',') >= 0 {
			c = true
		}
	}
	return c
}

// VerifC06_PipelinePerKeyTuple: two records through one connection sink: they
// share a pipeline iff their key tuples are equal; every pipeline carries the
// tag built from its own values; pipeline ids (= queue names) of different
// tuples differ and split back into the tuple that produced them.
//
//verif:reach one-pipeline two-pipelines
func VerifC06_PipelinePerKeyTuple() {
	maxLen := 2 + sym.Tier()
	a0, a1 := verifKeyValue("app1", maxLen, true), verifKeyValue("level1", maxLen, true)
	b0, b1 := verifKeyValue("app2", maxLen, true), verifKeyValue("level2", maxLen, true)
	st := &verifStarter{}
	o := NewOrchestrator(logger.Root(), verifSchema, []string{"app", "level"}, "t.$app", fakes.NewMetrics(), st.start, nil)
	sink := o.NewSink("client", 7)
	r1 := verifSchema.NewTestRecord1(base.LogFields{a0, a1, "m1"})
	r2 := verifSchema.NewTestRecord1(base.LogFields{b0, b1, "m2"})
	sink.Accept([]*base.LogRecord{r1})
	sink.Accept([]*base.LogRecord{r2})
	sink.Close()
	same := a0 == b0 && a1 == b1
	sym.Assert(len(st.pipes) >= 1 && len(st.pipes) <= 2, "one or two pipelines")
	sym.Assert((len(st.pipes) == 1) == same, "records share a pipeline iff their key tuples are equal")
	p1 := st.pipes[0]
	sym.Assert(p1.tag == "t."+a0, "tag built from the record's own values")
	got1 := <-p1.input
	sym.Assert(len(got1) >= 1 && got1[0] == r1, "first record routed to the pipeline of its tuple")
	if len(st.pipes) == 2 {
		p2 := st.pipes[1]
		sym.Assert(p2.tag == "t."+b0, "second tag built from its own values")
		got2 := <-p2.input
		sym.Assert(len(got2) == 1 && got2[0] == r2, "second record routed to the pipeline of its tuple")
		if verifHasComma(a0, a1, b0, b1) {
			sym.Assert(p1.id != p2.id, "queue ids of different tuples differ [value contains ',']")
		} else {
			sym.Assert(p1.id != p2.id, "queue ids of different tuples differ")
		}
		sym.Reach("two-pipelines")
	} else {
		sym.Assert(len(got1) == 2 && got1[1] == r2, "equal tuples: both records in order on one pipeline")
		sym.Reach("one-pipeline")
	}
	sym.Observe("id1", p1.id)
}

// VerifC06_ReattachById: the id of a pipeline, fed back as an initial pipeline
// id at the next start, re-creates the pipeline of exactly the original tuple.
//
//verif:reach reattached
func VerifC06_ReattachById() {
	maxLen := 2
	a0, a1 := verifKeyValue("app", maxLen, true), verifKeyValue("level", maxLen, true)
	st := &verifStarter{}
	o := NewOrchestrator(logger.Root(), verifSchema, []string{"app", "level"}, "t.$app", fakes.NewMetrics(), st.start, nil)
	sink := o.NewSink("client", 7)
	sink.Accept([]*base.LogRecord{verifSchema.NewTestRecord1(base.LogFields{a0, a1, "m"})})
	id := st.pipes[0].id
	// next generation
	st2 := &verifStarter{}
	o2 := NewOrchestrator(logger.Root(), verifSchema, []string{"app", "level"}, "t.$app", fakes.NewMetrics(), st2.start, []string{id})
	comma := verifHasComma(a0, a1)
	if comma {
		sym.Assert(len(st2.pipes) == 1 && st2.pipes[0].id == id && st2.pipes[0].tag == "t."+a0, "recovered id re-creates the pipeline of its tuple [value contains ',']")
	} else {
		sym.Assert(len(st2.pipes) == 1 && st2.pipes[0].id == id && st2.pipes[0].tag == "t."+a0, "recovered id re-creates the pipeline of its tuple")
	}
	// a record with the original tuple joins the recovered pipeline instead of creating another one
	sink2 := o2.NewSink("client", 8)
	sink2.Accept([]*base.LogRecord{verifSchema.NewTestRecord1(base.LogFields{a0, a1, "m"})})
	if comma {
		sym.Assert(len(st2.pipes) == 1, "records of the tuple join the recovered pipeline [value contains ',']")
	} else {
		sym.Assert(len(st2.pipes) == 1, "records of the tuple join the recovered pipeline")
	}
	sym.Reach("reattached")
}

// VerifC07_KeyValuesAnyBytes: key-field values become Prometheus label values
// when a key set is first seen; arbitrary bytes (invalid UTF-8 included) must
// not crash the orchestrator.
//
//verif:reach done
func VerifC07_KeyValuesAnyBytes() {
	a0, a1 := verifKeyValue("app", 2, false), verifKeyValue("level", 2, false)
	st := &verifStarter{}
	o := NewOrchestrator(logger.Root(), verifSchema, []string{"app", "level"}, "t.$app", fakes.NewMetrics(), func(l logger.Logger, m promreg.MetricCreator,
		input <-chan []*base.LogRecord, bufferID string, outputTag string, onStopped func()) {
		// what every pipeline does first: create its counters under the key-set prefix
		base.NewLogProcessCounter(m, verifSchema, nil, []string{"out"})
		st.start(l, m, input, bufferID, outputTag, onStopped)
	}, nil)
	sink := o.NewSink("client", 7)
	sink.Accept([]*base.LogRecord{verifSchema.NewTestRecord1(base.LogFields{a0, a1, "m"})}) // obligation: no panic
	sink.Close()
	sym.Assert(len(st.pipes) == 1, "the record gets its pipeline")
	sym.Reach("done")
}

// ---- C01 link L2 / C05: per-key buffering and order through the orchestrator sink ----

type verifDrain struct {
	id   string
	msgs []string
	done chan struct{}
}

func verifOrderScenario(workerMayStall bool) {
	defer func(v int) { defs.IntermediateBufferMaxNumLogs = v }(defs.IntermediateBufferMaxNumLogs)
	defs.IntermediateBufferMaxNumLogs = 2
	// a pipeline worker may be busy for a while after taking a batch (a slow disk while spilling, a throttled
	// process): any stall shorter than the hand-over timeout the design allows (IntermediateChannelTimeout, 60 s)
	// must not cost a record
	var stall time.Duration
	if workerMayStall {
		stall = []time.Duration{0, 5 * time.Second, defs.IntermediateChannelTimeout - 15*time.Second}[sym.Choice("workerStall", 3)]
		if stall > 0 {
			defs.IntermediateBufferMaxNumLogs = 1 // every record is handed over at once: the third one meets a full channel while the worker is busy
		}
	}
	var drains []*verifDrain
	starter := func(l logger.Logger, m promreg.MetricCreator, input <-chan []*base.LogRecord, bufferID string, outputTag string, onStopped func()) {
		d := &verifDrain{id: bufferID, done: make(chan struct{})}
		drains = append(drains, d)
		go func() { // the pipeline's worker: takes batches in channel order
			for batch := range input {
				for _, r := range batch {
					d.msgs = append(d.msgs, r.Fields[2])
				}
				if stall > 0 {
					time.Sleep(stall)
				}
			}
			onStopped()
			close(d.done)
		}()
	}
	o := NewOrchestrator(logger.Root(), verifSchema, []string{"app", "level"}, "t.$app", fakes.NewMetrics(), starter, nil)
	sink := o.NewSink("client", 7)
	n := 4 + sym.Tier()
	want := map[string][]string{}
	for i := 0; i < n; i++ {
		app := []string{"a", "b"}[sym.Choice("app", 2)]
		msg := string([]byte{byte('0' + i)})
		want[app] = append(want[app], msg)
		sink.Accept([]*base.LogRecord{verifSchema.NewTestRecord1(base.LogFields{app, "x", msg})})
		if sym.Bool("tick") {
			sink.Tick()
		}
	}
	sink.Close()
	o.Shutdown() // closes the pipeline channels and waits for the workers
	total := 0
	for _, d := range drains {
		app := d.id[:1]
		sym.Assert(len(d.msgs) == len(want[app]), "every record of a key set reaches its pipeline exactly once (nothing left in the connection's buffers after Close)")
		for i := range d.msgs {
			if i < len(want[app]) {
				sym.Assert(d.msgs[i] == want[app][i], "records of one connection and key set reach the pipeline in arrival order")
			}
		}
		total += len(d.msgs)
	}
	sym.Assert(total == n, "no record is lost between the connection and the pipelines")
	if len(drains) == 2 {
		sym.Reach("two-keys")
	}
	sym.Reach("done")
}

// VerifC01_SinkFlushesEverything: link L2 of the custody chain.
//
//verif:native off
//verif:preempt 0
//verif:delays 1
//verif:clock virtual
//verif:reach done two-keys
func VerifC01_SinkFlushesEverything() { verifOrderScenario(true) }

// VerifC05_PerKeyOrder: the same run read as the ordering guarantee.
//
//verif:native off
//verif:preempt 0
//verif:delays 1
//verif:clock virtual
//verif:reach done two-keys
func VerifC05_PerKeyOrder() { verifOrderScenario(false) }

// VerifC06_ConcurrentConnections: two connections, each with its own sink,
// deliver records of different key tuples at the same time (the scheduler
// switches at every lock / channel operation and at every call into the agent's packages, one preemption): every pipeline
// is created under the tuple of the record that caused it and receives only
// records of that tuple - no per-connection state is shared between sinks.
//
//verif:native off
//verif:preempt 1
//verif:preemptcalls github.com/relex/slog-agent/
//verif:delays 1
//verif:thorough delays 2
//verif:reach done
//verif:paths 200000
func VerifC06_ConcurrentConnections() {
	st := &verifStarter{}
	o := NewOrchestrator(logger.Root(), verifSchema, []string{"app", "level"}, "t.$app.$level", fakes.NewMetrics(), st.start, nil)
	done := make(chan struct{}, 2)
	conn := func(num base.ClientNumber, app, level string, second bool) {
		sink := o.NewSink("client", num)
		sink.Accept([]*base.LogRecord{verifSchema.NewTestRecord1(base.LogFields{app, level, "m"})})
		if second {
			sink.Accept([]*base.LogRecord{verifSchema.NewTestRecord1(base.LogFields{level, app, "m"})})
		}
		sink.Close()
		done <- struct{}{}
	}
	go conn(1, "a", "x", sym.Tier() > 0)
	go conn(2, "b", "y", false)
	<-done
	<-done
	for _, p := range st.pipes {
		sym.Assert(p.tag == "t."+strings.ReplaceAll(p.id, ",", "."), "a pipeline's tag and queue id are built from the same tuple")
		n := len(p.input)
		sym.Assert(n >= 1, "a pipeline is created only for a record that goes to it")
		for i := 0; i < n; i++ {
			for _, r := range <-p.input {
				sym.Assert(r.Fields[0]+","+r.Fields[1] == p.id, "a record is routed to the pipeline of exactly its own key values")
			}
		}
	}
	sym.Assert(len(st.pipes) == 2+sym.Tier(), "one pipeline per distinct tuple")
	sym.Reach("done")
}

// VerifC05_TwoConnectionsPerKeyOrder: two connections (own sinks, own
// goroutines) each send two records with a symbolic key set per record and a
// symbolic tick, interleaved by the scheduler (one deviation from round robin;
// thorough: plus one preemption at any lock / channel operation): in every pipeline the
// records of one connection appear in that connection's arrival order, and
// nothing is lost between the connections and the pipelines.
//
//verif:native off
//verif:preempt 0
//verif:thorough preempt 1
//verif:delays 1
//verif:clock virtual
//verif:reach done two-keys
//verif:paths 400000
func VerifC05_TwoConnectionsPerKeyOrder() {
	defer func(v int) { defs.IntermediateBufferMaxNumLogs = v }(defs.IntermediateBufferMaxNumLogs)
	defs.IntermediateBufferMaxNumLogs = 2
	var drains []*verifDrain
	starter := func(l logger.Logger, m promreg.MetricCreator, input <-chan []*base.LogRecord, bufferID string, outputTag string, onStopped func()) {
		d := &verifDrain{id: bufferID, done: make(chan struct{})}
		drains = append(drains, d)
		go func() {
			for batch := range input {
				for _, r := range batch {
					d.msgs = append(d.msgs, r.Fields[2])
				}
			}
			onStopped()
			close(d.done)
		}()
	}
	o := NewOrchestrator(logger.Root(), verifSchema, []string{"app", "level"}, "t.$app", fakes.NewMetrics(), starter, nil)
	finished := make(chan struct{}, 2)
	n := 2
	conn := func(c byte) {
		sink := o.NewSink("client", base.ClientNumber(c))
		for i := 0; i < n; i++ {
			app := []string{"a", "b"}[sym.Choice("app", 2)]
			sink.Accept([]*base.LogRecord{verifSchema.NewTestRecord1(base.LogFields{app, "x", string([]byte{'0' + c, byte('0' + i)})})})
			if i == 0 && sym.Bool("tick") {
				sink.Tick()
			}
		}
		sink.Close()
		finished <- struct{}{}
	}
	go conn(1)
	go conn(2)
	<-finished
	<-finished
	o.Shutdown()
	total := 0
	for _, d := range drains {
		last := map[byte]byte{}
		for _, msg := range d.msgs {
			c, seq := msg[0], msg[1]
			if prev, seen := last[c]; seen {
				sym.Assert(seq > prev, "records of one connection and key set reach the pipeline in arrival order, whatever the other connection does")
			}
			last[c] = seq
		}
		total += len(d.msgs)
	}
	sym.Assert(total == 2*n, "no record is lost or duplicated between the connections and the pipelines")
	if len(drains) == 2 {
		sym.Reach("two-keys")
	}
	sym.Reach("done")
}

// VerifC06_ArbitraryByteKeyValues: key values of 1 (thorough: 1..2) arbitrary bytes (invalid
// UTF-8 included - header tokens are not validated): two records whose values
// differ get different pipelines with different queue ids and different tags,
// each built from the record's own bytes (only the metric labels are sanitised).
//
//verif:reach two-pipelines one-pipeline
//verif:paths 100000
func VerifC06_ArbitraryByteKeyValues() {
	n := 1 + sym.Choice("len", 1+sym.Tier())
	a := sym.String("app1", n, n)
	b := sym.String("app2", n, n)
	for i := 0; i < n; i++ {
		sym.Assume(a[i] != ',' && b[i] != ',') // values containing ',' are known finding C06-F1
	}
	st := &verifStarter{}
	o := NewOrchestrator(logger.Root(), verifSchema, []string{"app", "level"}, "t.$app", fakes.NewMetrics(), st.start, nil)
	sink := o.NewSink("client", 7)
	sink.Accept([]*base.LogRecord{verifSchema.NewTestRecord1(base.LogFields{a, "x", "m1"})})
	sink.Accept([]*base.LogRecord{verifSchema.NewTestRecord1(base.LogFields{b, "x", "m2"})})
	sink.Close()
	if a == b {
		sym.Assert(len(st.pipes) == 1, "equal tuples share a pipeline")
		sym.Reach("one-pipeline")
		return
	}
	sym.Assert(len(st.pipes) == 2, "different tuples get different pipelines")
	if len(st.pipes) == 2 {
		sym.Assert(st.pipes[0].id != st.pipes[1].id, "queue ids of tuples that differ in any byte differ")
		sym.Assert(st.pipes[0].tag != st.pipes[1].tag, "tags of tuples that differ in a key used by the template differ")
		sym.Assert(st.pipes[0].id == a+",x" && st.pipes[1].id == b+",x", "the queue id is built from the record's own bytes")
		sym.Assert(st.pipes[0].tag == "t."+a && st.pipes[1].tag == "t."+b, "the tag is built from the record's own bytes")
	}
	sym.Reach("two-pipelines")
}

// VerifC12_ConnectionsDoNotShareScratch: the concurrent-connections run read as
// record isolation: per-connection scratch state (key-set extractor buffers,
// local caches) is not shared between the sinks of two connections.
//
//verif:native off
//verif:preempt 1
//verif:preemptcalls github.com/relex/slog-agent/
//verif:delays 1
//verif:thorough delays 2
//verif:reach done
//verif:paths 200000
func VerifC12_ConnectionsDoNotShareScratch() { VerifC06_ConcurrentConnections() }
