package obykeyset

// C17 / C01 — queue take-over: the orchestrator that starts (at launch and
// when a reload completes) re-creates a pipeline for every queue id that any
// of the configured outputs still holds on disk; otherwise the chunks saved by
// the old pipelines stay undelivered until a client happens to send a record of that key set.

import (
	"io"

	"github.com/relex/gotils/logger"
	"github.com/relex/gotils/promexporter/promreg"
	"github.com/relex/slog-agent/base"
	"github.com/relex/slog-agent/base/bconfig"
	"github.com/relex/slog-agent/orchestrate/obase"
	"github.com/relex/slog-agent/zz_verif/fakes"
	"github.com/relex/slog-agent/zz_verif/sym"
)

type verifBufCfg struct {
	bconfig.Header
	ids []string
}

func (c *verifBufCfg) ListBufferIDs(logger.Logger, func(string) bool, promreg.MetricCreator) []string {
	return c.ids
}
func (c *verifBufCfg) NewBufferer(logger.Logger, string, func(string) bool, promreg.MetricCreator, bool) base.ChunkBufferer {
	return nil
}
func (c *verifBufCfg) VerifyConfig() error { return nil }

type verifOutCfg struct{ bconfig.Header }

func (c *verifOutCfg) DecodeChunkToJSON(base.LogChunk, []byte, bool, io.Writer) (base.LogChunkInfo, error) {
	return base.LogChunkInfo{}, nil
}
func (c *verifOutCfg) MatchChunkID(string) bool { return true }
func (c *verifOutCfg) NewSerializer(logger.Logger, base.LogSchema, string) base.LogSerializer {
	return nil
}
func (c *verifOutCfg) NewChunkMaker(logger.Logger, string) base.LogChunkMaker { return nil }
func (c *verifOutCfg) NewForwarder(logger.Logger, base.ChunkConsumerArgs, promreg.MetricCreator) base.ChunkConsumer {
	return nil
}
func (c *verifOutCfg) VerifyConfig(base.LogSchema) error { return nil }

var verifTakeoverStarter *verifStarter

func verifStubPrepareSequentialPipeline(args bconfig.PipelineArgs) obase.PipelineStarter {
	return verifTakeoverStarter.start
}

// VerifC17_QueuedIdsOfEveryOutputAreTakenOver: one to three outputs, each
// holding a symbolic subset of three queue ids on disk: the started
// orchestrator has exactly one pipeline per id in the union.
//
//verif:native off
//verif:stub github.com/relex/slog-agent/orchestrate/obase.PrepareSequentialPipeline verifStubPrepareSequentialPipeline
//verif:reach done some-queued
func VerifC17_QueuedIdsOfEveryOutputAreTakenOver() {
	all := []string{"a,x", "b,y", "c,z"}
	nOut := 1 + sym.Choice("outputs", 3)
	var pairs []bconfig.OutputBufferConfig
	inUnion := map[string]bool{}
	for o := 0; o < nOut; o++ {
		var ids []string
		if o == 0 && sym.Bool("malformedIdFirst") {
			ids = append(ids, "leftover-of-another-key-count") // ignored with a warning; must not stop the take-over of the others
		}
		for _, id := range all {
			if sym.Bool("queued") {
				ids = append(ids, id)
				inUnion[id] = true
			}
		}
		pairs = append(pairs, bconfig.OutputBufferConfig{Name: "o",
			BufferConfig: bconfig.ConfigHolder[bconfig.ChunkBufferConfig]{Value: &verifBufCfg{ids: ids}},
			OutputConfig: bconfig.ConfigHolder[bconfig.LogOutputConfig]{Value: &verifOutCfg{}}})
	}
	verifTakeoverStarter = &verifStarter{}
	cfg := &Config{Keys: []string{"app", "level"}, TagTemplate: "t.$app"}
	o := cfg.StartOrchestrator(logger.Root(), bconfig.PipelineArgs{Schema: verifSchema, OutputBufferPairs: pairs}, fakes.NewMetrics())
	sym.Assert(o != nil, "the orchestrator starts")
	for _, id := range all {
		n := 0
		for _, p := range verifTakeoverStarter.pipes {
			if p.id == id {
				n++
			}
		}
		if inUnion[id] {
			sym.Assert(n == 1, "a pipeline is re-created for every well-formed queue id that some output still holds on disk")
			sym.Reach("some-queued")
		} else {
			sym.Assert(n == 0, "no pipeline without queued chunks or traffic")
		}
	}
	sym.Reach("done")
}

// VerifC01_QueuedIdsOfEveryOutputAreTakenOver: the same run read as the restart link of the custody chain.
//
//verif:native off
//verif:stub github.com/relex/slog-agent/orchestrate/obase.PrepareSequentialPipeline verifStubPrepareSequentialPipeline
//verif:reach done some-queued
func VerifC01_QueuedIdsOfEveryOutputAreTakenOver() { VerifC17_QueuedIdsOfEveryOutputAreTakenOver() }

// VerifC06_QueuedChunksAreReattachedPerKeySet: the take-over run read for C06: queued chunks found at startup under
// any output are re-attached to the pipeline of the key set that produced them (every queued id gets its pipeline).
//
//verif:native off
//verif:stub github.com/relex/slog-agent/orchestrate/obase.PrepareSequentialPipeline verifStubPrepareSequentialPipeline
//verif:reach done some-queued
func VerifC06_QueuedChunksAreReattachedPerKeySet() { VerifC17_QueuedIdsOfEveryOutputAreTakenOver() }
