package osingleton

// C12 / C01 — the sink contract of the singleton orchestrator: the caller's
// buffer is only usable within Accept (the per-connection parsing receiver
// reuses its backing array right after the hand-over), so batches that are
// still queued for the pipeline must not change when the caller goes on.

import (
	"github.com/relex/gotils/logger"
	"github.com/relex/gotils/promexporter/promreg"
	"github.com/relex/slog-agent/base"
	"github.com/relex/slog-agent/defs"
	"github.com/relex/slog-agent/zz_verif/fakes"
	"github.com/relex/slog-agent/zz_verif/sym"
)

var verifSchema = base.MustNewLogSchema([]string{"app", "msg"})

// VerifC12_QueuedBatchesAreIsolated: two connections hand over batches from
// reused buffers (symbolic batch sizes); the pipeline picks the batches up only
// afterwards: every record arrives exactly once, in hand-over order.
//
//verif:reach done
func VerifC12_QueuedBatchesAreIsolated() {
	// the pipeline is busy and picks the batches up later: room for the three batches in the channel
	defer func(v int) { defs.IntermediateBufferedChannelSize = v }(defs.IntermediateBufferedChannelSize)
	defs.IntermediateBufferedChannelSize = 4
	var input <-chan []*base.LogRecord
	o := NewOrchestrator(logger.Root(), "tag", fakes.NewMetrics(), func(l logger.Logger, m promreg.MetricCreator,
		in <-chan []*base.LogRecord, bufferID string, outputTag string, onStopped func()) {
		input = in
		_ = onStopped
	})
	sink := o.NewSink("client", 3)
	buf := make([]*base.LogRecord, 0, 4) // the caller's reusable buffer
	var want []*base.LogRecord
	n := 0
	for round := 0; round < 3; round++ {
		k := 1 + sym.Choice("batchSize", 3)
		buf = buf[:0]
		for i := 0; i < k; i++ {
			r := verifSchema.NewTestRecord1(base.LogFields{"a", string([]byte{byte('0' + n)})})
			n++
			buf = append(buf, r)
			want = append(want, r)
		}
		sink.Accept(buf)
	}
	sink.Close()
	var got []*base.LogRecord
	for len(input) > 0 {
		got = append(got, (<-input)...)
	}
	sym.Assert(len(got) == len(want), "every record handed over is queued exactly once")
	for i := range want {
		if i < len(got) {
			sym.Assert(got[i] == want[i], "a queued batch holds the records that were handed over, in order, whatever the caller does with its buffer afterwards")
		}
	}
	sym.Reach("done")
}

// VerifC01_SingletonSinkHandsOverEverything: the same run read as a custody link.
//
//verif:reach done
func VerifC01_SingletonSinkHandsOverEverything() { VerifC12_QueuedBatchesAreIsolated() }
