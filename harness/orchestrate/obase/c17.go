package obase

// C17 / C01 / C18 — the pipeline's own stop sequence (PrepareSequentialPipeline):
// an orchestrator's Shutdown returns when every pipeline has reported
// "stopped"; a reload then starts the next orchestrator, which scans the queue
// directories once. A pipeline must therefore report "stopped" only after
// every output buffer has been destroyed (its queued chunks saved).

import (
	"io"
	"time"

	"github.com/relex/gotils/channels"
	"github.com/relex/gotils/logger"
	"github.com/relex/gotils/promexporter/promreg"
	"github.com/relex/slog-agent/base"
	"github.com/relex/slog-agent/base/bconfig"
	"github.com/relex/slog-agent/zz_verif/fakes"
	"github.com/relex/slog-agent/zz_verif/sym"
)

type verifBuf struct {
	name       string
	log        *[]string
	destroyFor time.Duration
	accepted   int
	destroyed  bool
	stopped    *channels.SignalAwaitable
}

func (b *verifBuf) Start()                      { *b.log = append(*b.log, "buffer-start:"+b.name) }
func (b *verifBuf) Stopped() channels.Awaitable { return b.stopped }
func (b *verifBuf) RegisterNewConsumer() base.ChunkConsumerArgs {
	return base.ChunkConsumerArgs{InputChannel: make(chan base.LogChunk), InputClosed: channels.NewSignalAwaitable(),
		OnChunkConsumed: func(base.LogChunk) {}, OnChunkLeftover: func(base.LogChunk) {}, OnFinished: func() {}}
}
func (b *verifBuf) Accept(chunk base.LogChunk) {
	sym.Assert(!b.destroyed, "no chunk is handed to a buffer that has been destroyed")
	b.accepted++
}
func (b *verifBuf) Destroy() {
	if b.destroyFor > 0 {
		time.Sleep(b.destroyFor) // saving the queued chunks takes time
	}
	b.destroyed = true
	*b.log = append(*b.log, "buffer-destroyed:"+b.name)
	b.stopped.Signal()
}

type verifBufCfg struct {
	bconfig.Header
	bufs *[]*verifBuf
	log  *[]string
	slow time.Duration
}

func (c *verifBufCfg) ListBufferIDs(logger.Logger, func(string) bool, promreg.MetricCreator) []string {
	return nil
}
func (c *verifBufCfg) NewBufferer(l logger.Logger, bufferID string, match func(string) bool, m promreg.MetricCreator, sendAll bool) base.ChunkBufferer {
	b := &verifBuf{name: bufferID, log: c.log, destroyFor: c.slow, stopped: channels.NewSignalAwaitable()}
	*c.bufs = append(*c.bufs, b)
	return b
}
func (c *verifBufCfg) VerifyConfig() error { return nil }

type verifOutCfg struct {
	bconfig.Header
}

func (c *verifOutCfg) DecodeChunkToJSON(base.LogChunk, []byte, bool, io.Writer) (base.LogChunkInfo, error) {
	return base.LogChunkInfo{}, nil
}
func (c *verifOutCfg) MatchChunkID(string) bool { return true }
func (c *verifOutCfg) NewSerializer(logger.Logger, base.LogSchema, string) base.LogSerializer {
	return verifSer{}
}
func (c *verifOutCfg) NewChunkMaker(logger.Logger, string) base.LogChunkMaker { return &verifMaker{} }
func (c *verifOutCfg) NewForwarder(logger.Logger, base.ChunkConsumerArgs, promreg.MetricCreator) base.ChunkConsumer {
	panic("the harness supplies the consumer")
}
func (c *verifOutCfg) VerifyConfig(base.LogSchema) error { return nil }

type verifSer struct{}

func (verifSer) SerializeRecord(r *base.LogRecord) base.LogStream { return base.LogStream("r") }

type verifMaker struct{ n int }

func (m *verifMaker) WriteStream(s base.LogStream) *base.LogChunk { m.n++; return nil }
func (m *verifMaker) FlushBuffer() *base.LogChunk {
	if m.n == 0 {
		return nil
	}
	m.n = 0
	return &base.LogChunk{ID: "c", Data: []byte("x")}
}

type verifCons struct{ stopped *channels.SignalAwaitable }

func (c *verifCons) Start()                      {}
func (c *verifCons) Stopped() channels.Awaitable { return c.stopped }

// VerifC17_PipelineStopsAfterItsBuffers: the real pipeline starter with one or
// two outputs (fake buffer / output configurations that record what happens),
// 0..2 records, buffers whose Destroy takes 0 or 5 s: when the pipeline
// reports "stopped" - the moment Orchestrator.Shutdown may return and a reload
// may start the next orchestrator on the same queue directories - every
// output buffer has been destroyed, and every chunk went to a live buffer.
//
//verif:native off
//verif:preempt 1
//verif:delays 1
//verif:clock virtual
//verif:reach stopped with-records
func VerifC17_PipelineStopsAfterItsBuffers() {
	var events []string
	var bufs []*verifBuf
	nOut := 1 + sym.Choice("outputs", 2)
	slow := []time.Duration{0, 5 * time.Second}[sym.Choice("destroyTakes", 2)]
	schema := base.MustNewLogSchema([]string{"app", "msg"})
	pairs := make([]bconfig.OutputBufferConfig, nOut)
	for i := range pairs {
		pairs[i] = bconfig.OutputBufferConfig{Name: []string{"o1", "o2"}[i],
			BufferConfig: bconfig.ConfigHolder[bconfig.ChunkBufferConfig]{Value: &verifBufCfg{bufs: &bufs, log: &events, slow: slow}},
			OutputConfig: bconfig.ConfigHolder[bconfig.LogOutputConfig]{Value: &verifOutCfg{}}}
	}
	args := bconfig.PipelineArgs{Schema: schema, Deallocator: base.NewLogAllocator(schema, nOut), OutputBufferPairs: pairs,
		NewConsumerOverride: func(logger.Logger, string, base.ChunkDecoder, base.ChunkConsumerArgs) base.ChunkConsumer {
			return &verifCons{stopped: channels.NewSignalAwaitable()}
		}}
	input := make(chan []*base.LogRecord, 2)
	stopped := make(chan struct{})
	PrepareSequentialPipeline(args)(logger.Root(), fakes.NewMetrics(), input, "k1", "tag", func() {
		for _, b := range bufs {
			sym.Assert(b.destroyed, "a pipeline reports stopped only after every output buffer has been destroyed (its queued chunks saved)")
		}
		close(stopped)
	})
	n := sym.Choice("records", 3)
	for i := 0; i < n; i++ {
		rec, _ := args.Deallocator.NewRecord([]byte("0123456789"))
		rec.Fields[0], rec.Fields[1] = "a", "m"
		input <- []*base.LogRecord{rec}
	}
	close(input)
	<-stopped
	sym.Assert(len(bufs) == nOut, "one buffer per output")
	for _, b := range bufs {
		sym.Assert(b.destroyed, "every buffer is destroyed at the end")
		if n > 0 {
			sym.Assert(b.accepted >= 1, "the records' chunk reached every output's buffer before the stop")
		}
	}
	if n > 0 {
		sym.Reach("with-records")
	}
	sym.Reach("stopped")
}

// VerifC01_PipelineStopsAfterItsBuffers / VerifC18_...: the same run read for the custody chain (nothing is only in
// memory when the shutdown is reported complete) and for the shutdown order.
//
//verif:native off
//verif:preempt 1
//verif:delays 1
//verif:clock virtual
//verif:reach stopped with-records
func VerifC01_PipelineStopsAfterItsBuffers() { VerifC17_PipelineStopsAfterItsBuffers() }

//verif:native off
//verif:preempt 1
//verif:delays 1
//verif:clock virtual
//verif:reach stopped with-records
func VerifC18_PipelineStopsAfterItsBuffers() { VerifC17_PipelineStopsAfterItsBuffers() }
