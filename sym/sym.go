// Package sym is the harness API. Under the symbolic engine every call is
// intercepted and these bodies never run; compiled natively (replay and
// translator validation) the values come from a case loaded with Load/SetCase.
package sym

import (
	"encoding/hex"
	"encoding/json"
	"fmt"
	"os"
	"reflect"
	"sort"
	"strconv"
	"strings"
	"time"
)

type value struct {
	K  string         `json:"k"`
	V  interface{}    `json:"v"`
	N  int64          `json:"n"`
	At map[string]int `json:"at"`
}

// Case is one concrete assignment of the harness inputs.
type Case struct {
	Inputs map[string]value `json:"inputs"`
	Tier   int              `json:"tier"`
}

// Outcome is what a native run of a harness produced.
type Outcome struct {
	Outcome  string            `json:"outcome"` // ok | assume-failed | assert-failed:<label> | panic:<msg>
	Observed map[string]string `json:"observed"`
	Reached  []string          `json:"reached"`
	Stack    string            `json:"stack,omitempty"`
}

var (
	cur      *Case
	names    map[string]int
	observed map[string]string
	reached  []string
)

type assumeFailed struct{}
type assertFailed struct{ label string }

func unique(name string) string {
	names[name]++
	if n := names[name]; n > 1 {
		return fmt.Sprintf("%s#%d", name, n)
	}
	return name
}

func lookup(name string) (value, bool) {
	if cur == nil {
		return value{}, false
	}
	v, ok := cur.Inputs[unique(name)]
	return v, ok
}

func asInt(v value) int64 {
	switch x := v.V.(type) {
	case float64:
		return int64(x)
	case json.Number:
		n, _ := x.Int64()
		return n
	case string:
		n, _ := strconv.ParseInt(x, 10, 64)
		return n
	}
	return 0
}

func Byte(name string) byte {
	v, _ := lookup(name)
	return byte(asInt(v))
}

func Bool(name string) bool {
	v, ok := lookup(name)
	if !ok {
		return false
	}
	b, _ := v.V.(bool)
	return b
}

func Int(name string) int {
	v, _ := lookup(name)
	return int(asInt(v))
}

func IntRange(name string, lo, hi int) int {
	v, ok := lookup(name)
	if !ok {
		return lo
	}
	n := int(asInt(v))
	if n < lo || n > hi {
		panic(assumeFailed{})
	}
	return n
}

func Choice(name string, n int) int {
	v, ok := lookup(name)
	if !ok {
		return 0
	}
	k := int(asInt(v))
	if k < 0 || k >= n {
		panic(assumeFailed{})
	}
	return k
}

func Bytes(name string, min, max int) []byte {
	v, ok := lookup(name)
	if !ok {
		return make([]byte, min)
	}
	s, _ := v.V.(string)
	b, _ := hex.DecodeString(s)
	if len(b) < min || len(b) > max {
		panic(assumeFailed{})
	}
	out := make([]byte, len(b))
	copy(out, b)
	return out
}

func String(name string, min, max int) string { return string(Bytes(name, min, max)) }

func BigBytes(name string, min, max int) []byte {
	v, ok := lookup(name)
	if !ok {
		return make([]byte, min)
	}
	if v.N < int64(min) || v.N > int64(max) {
		panic(assumeFailed{})
	}
	out := make([]byte, v.N)
	for k, b := range v.At {
		i, _ := strconv.ParseInt(k, 10, 64)
		if i >= 0 && i < v.N {
			out[i] = byte(b)
		}
	}
	return out
}

func Assume(b bool) {
	if !b {
		panic(assumeFailed{})
	}
}

func Assert(b bool, label string) {
	if !b {
		panic(assertFailed{label})
	}
}

func Reach(label string) { reached = append(reached, label) }

func Unwind(n int) {}

func Concretize(x int, lo, hi int) int {
	if x < lo || x > hi {
		panic(assumeFailed{})
	}
	return x
}

func ConcretizeBool(b bool) bool { return b }

func PoolNondet(on bool) {}

func Yield() {}

// Symbolic reports whether the harness runs under the symbolic engine.
func Symbolic() bool { return false }

// Tier is 0 for quick, 1 for thorough.
func Tier() int {
	if cur != nil {
		return cur.Tier
	}
	return 0
}

func TimeFromUnixNano(ns int) time.Time { return time.Unix(0, int64(ns)) }

func Float64FromInt(n int) float64 { return float64(n) }

func render(v interface{}) string {
	switch x := v.(type) {
	case nil:
		return "nil"
	case bool:
		return strconv.FormatBool(x)
	case string:
		return "x" + hex.EncodeToString([]byte(x))
	case []byte:
		return "x" + hex.EncodeToString(x)
	}
	rv := reflect.ValueOf(v)
	switch rv.Kind() {
	case reflect.Int, reflect.Int8, reflect.Int16, reflect.Int32, reflect.Int64:
		return strconv.FormatInt(rv.Int(), 10)
	case reflect.Uint, reflect.Uint8, reflect.Uint16, reflect.Uint32, reflect.Uintptr:
		return strconv.FormatInt(int64(rv.Uint()), 10)
	case reflect.Uint64:
		return strconv.FormatInt(int64(rv.Uint()), 10)
	case reflect.String:
		return "x" + hex.EncodeToString([]byte(rv.String()))
	case reflect.Bool:
		return strconv.FormatBool(rv.Bool())
	case reflect.Slice:
		if rv.Type().Elem().Kind() == reflect.Uint8 {
			return "x" + hex.EncodeToString(rv.Bytes())
		}
		parts := make([]string, rv.Len())
		for i := range parts {
			parts[i] = render(rv.Index(i).Interface())
		}
		return "[" + strings.Join(parts, ",") + "]"
	}
	return fmt.Sprintf("<%T>", v)
}

func Observe(label string, v interface{}) { observed[label] = render(v) }

// Run executes fn under the given case and reports what happened.
func Run(c *Case, fn func()) (out Outcome) {
	cur = c
	names = map[string]int{}
	observed = map[string]string{}
	reached = nil
	defer func() {
		out.Observed = observed
		out.Reached = reached
		if r := recover(); r != nil {
			switch p := r.(type) {
			case assumeFailed:
				out.Outcome = "assume-failed"
			case assertFailed:
				out.Outcome = "assert-failed:" + p.label
			default:
				out.Outcome = "panic:" + fmt.Sprint(r)
				out.Stack = stack()
			}
			return
		}
		out.Outcome = "ok"
	}()
	fn()
	return
}

// RunFile runs every case of a JSON file {"cases":[...]} and writes the outcomes.
func RunFile(path, outPath string, fn func()) error {
	data, err := os.ReadFile(path)
	if err != nil {
		return err
	}
	var doc struct {
		Cases []*Case `json:"cases"`
	}
	if err := json.Unmarshal(data, &doc); err != nil {
		return err
	}
	var outs []Outcome
	for _, c := range doc.Cases {
		outs = append(outs, Run(c, fn))
	}
	res, _ := json.Marshal(map[string]interface{}{"outcomes": outs})
	return os.WriteFile(outPath, res, 0o644)
}

func stack() string {
	buf := make([]byte, 16384)
	n := runtimeStack(buf)
	lines := strings.Split(string(buf[:n]), "\n")
	var keep []string
	for _, l := range lines {
		if strings.Contains(l, "slog-agent") && !strings.Contains(l, "zz_verif/sym") {
			keep = append(keep, strings.TrimSpace(l))
		}
	}
	sort.SliceStable(keep, func(i, j int) bool { return false })
	if len(keep) > 12 {
		keep = keep[:12]
	}
	return strings.Join(keep, " | ")
}

// RestartProcess models the end of the agent process and the start of a new one: under the engine the package-level
// state of the code under test is discarded and its package initialisers run again; natively it cannot be done (no-op),
// so harnesses using it are engine-only (//verif:native off).
func RestartProcess() {}

// VirtualNow is the engine's discrete-event clock in nanoseconds (0 natively).
func VirtualNow() int { return 0 }
