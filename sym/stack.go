package sym

import "runtime"

func runtimeStack(buf []byte) int { return runtime.Stack(buf, false) }
