package main

// Engine-side implementation of the harness API (package zz_verif/sym).

import (
	"strings"
	"fmt"
	"go/types"

	"golang.org/x/tools/go/ssa"
)

var symFuncs = map[string]intrinsic{}

func (ex *Exec) constStrArg(v Value) string {
	vw, ok := v.(View)
	if !ok {
		panic(unsupported{"sym: name must be a string"})
	}
	if _, isC := vw.Len.ConstS(); !isC {
		panic(unsupported{"sym: name must be a constant string"})
	}
	return ex.viewString(vw)
}

func (ex *Exec) constIntArg(v Value) int64 {
	k, ok := v.(*T).ConstS()
	if !ok {
		panic(unsupported{"sym: argument must be a constant integer"})
	}
	return k
}

// uniqueName returns name, name#2, name#3 ... per path.
func (ex *Exec) uniqueName(name string) string {
	ex.symNames[name]++
	if n := ex.symNames[name]; n > 1 {
		return fmt.Sprintf("%s#%d", name, n)
	}
	return name
}

func smtName(s string) string {
	out := make([]byte, 0, len(s)+2)
	out = append(out, 'v', '_')
	for i := 0; i < len(s); i++ {
		ch := s[i]
		if (ch >= 'a' && ch <= 'z') || (ch >= 'A' && ch <= 'Z') || (ch >= '0' && ch <= '9') || ch == '_' {
			out = append(out, ch)
		} else {
			out = append(out, fmt.Sprintf("_%02x", ch)...)
		}
	}
	return string(out)
}

func (ex *Exec) symBytes(name string, min, max int64, label string) View {
	c := ex.c
	un := ex.uniqueName(name)
	sn := smtName(un)
	var ln *T
	if min == max {
		ln = ex.intConst(max)
	} else {
		ln = c.Var(sn+"_len", BV(64))
		ex.assume(c.And(c.Sle(ex.intConst(min), ln), c.Sle(ln, ex.intConst(max))))
	}
	cells := make([]*T, max)
	for i := range cells {
		cells[i] = c.Var(fmt.Sprintf("%s_%d", sn, i), BV(8))
	}
	o := ex.newByteObj(ln, max, &layer{kind: lCells, cells: cells}, label)
	ex.inputs = append(ex.inputs, InputRec{Name: un, Kind: "bytes", Term: ln, Cells: cells, Max: max})
	return View{O: o, Off: ex.intConst(0), Len: ln, Cap: ln}
}

func init() {
	symFuncs["Byte"] = func(ex *Exec, fr *frame, fn *ssa.Function, args []Value) Value {
		un := ex.uniqueName(ex.constStrArg(args[0]))
		t := ex.c.Var(smtName(un), BV(8))
		ex.inputs = append(ex.inputs, InputRec{Name: un, Kind: "byte", Term: t})
		return t
	}
	symFuncs["Bool"] = func(ex *Exec, fr *frame, fn *ssa.Function, args []Value) Value {
		un := ex.uniqueName(ex.constStrArg(args[0]))
		t := ex.c.Var(smtName(un), BoolS)
		ex.inputs = append(ex.inputs, InputRec{Name: un, Kind: "bool", Term: t})
		return t
	}
	symFuncs["Int"] = func(ex *Exec, fr *frame, fn *ssa.Function, args []Value) Value {
		un := ex.uniqueName(ex.constStrArg(args[0]))
		t := ex.c.Var(smtName(un), BV(64))
		ex.inputs = append(ex.inputs, InputRec{Name: un, Kind: "int", Term: t})
		return t
	}
	symFuncs["IntRange"] = func(ex *Exec, fr *frame, fn *ssa.Function, args []Value) Value {
		un := ex.uniqueName(ex.constStrArg(args[0]))
		lo, hi := args[1].(*T), args[2].(*T)
		if l, ok1 := lo.ConstS(); ok1 {
			if h, ok2 := hi.ConstS(); ok2 && l == h {
				ex.inputs = append(ex.inputs, InputRec{Name: un, Kind: "int", Term: lo})
				return lo
			}
		}
		t := ex.c.Var(smtName(un), BV(64))
		ex.inputs = append(ex.inputs, InputRec{Name: un, Kind: "int", Term: t})
		ex.assume(ex.c.And(ex.c.Sle(lo, t), ex.c.Sle(t, hi)))
		return t
	}
	symFuncs["Choice"] = func(ex *Exec, fr *frame, fn *ssa.Function, args []Value) Value {
		un := ex.uniqueName(ex.constStrArg(args[0]))
		n := ex.constIntArg(args[1])
		t := ex.c.Var(smtName(un), BV(64))
		ex.inputs = append(ex.inputs, InputRec{Name: un, Kind: "int", Term: t})
		ex.assume(ex.c.And(ex.c.Sle(ex.intConst(0), t), ex.c.Slt(t, ex.intConst(n))))
		k := ex.concretize(t, 0, n-1)
		return ex.intConst(k)
	}
	symFuncs["Bytes"] = func(ex *Exec, fr *frame, fn *ssa.Function, args []Value) Value {
		return ex.symBytes(ex.constStrArg(args[0]), ex.constIntArg(args[1]), ex.constIntArg(args[2]), "sym.Bytes")
	}
	symFuncs["String"] = func(ex *Exec, fr *frame, fn *ssa.Function, args []Value) Value {
		return ex.symBytes(ex.constStrArg(args[0]), ex.constIntArg(args[1]), ex.constIntArg(args[2]), "sym.String")
	}
	symFuncs["BigBytes"] = func(ex *Exec, fr *frame, fn *ssa.Function, args []Value) Value {
		c := ex.c
		un := ex.uniqueName(ex.constStrArg(args[0]))
		sn := smtName(un)
		min, max := ex.constIntArg(args[1]), ex.constIntArg(args[2])
		ln := c.Var(sn+"_len", BV(64))
		ex.assume(c.And(c.Sle(ex.intConst(min), ln), c.Sle(ln, ex.intConst(max))))
		o := ex.newByteObj(ln, max, &layer{kind: lUF, uf: sn + "_uf"}, "sym.BigBytes")
		ex.inputs = append(ex.inputs, InputRec{Name: un, Kind: "bigbytes", Term: ln, UF: sn + "_uf", Max: max})
		return View{O: o, Off: ex.intConst(0), Len: ln, Cap: ln}
	}
	symFuncs["Assume"] = func(ex *Exec, fr *frame, fn *ssa.Function, args []Value) Value {
		ex.assume(args[0].(*T))
		return nil
	}
	symFuncs["Assert"] = func(ex *Exec, fr *frame, fn *ssa.Function, args []Value) Value {
		label := ex.constStrArg(args[1])
		ex.asserts[label]++
		ex.oblige(args[0].(*T), "assert", label)
		return nil
	}
	symFuncs["Reach"] = func(ex *Exec, fr *frame, fn *ssa.Function, args []Value) Value {
		label := ex.constStrArg(args[0])
		if !ex.replaying() {
			ex.ensureModel()
		}
		ex.res.Reached = append(ex.res.Reached, label)
		return nil
	}
	symFuncs["Unwind"] = func(ex *Exec, fr *frame, fn *ssa.Function, args []Value) Value {
		ex.unwind = int(ex.constIntArg(args[0]))
		return nil
	}
	symFuncs["Concretize"] = func(ex *Exec, fr *frame, fn *ssa.Function, args []Value) Value {
		t := args[0].(*T)
		lo, hi := ex.constIntArg(args[1]), ex.constIntArg(args[2])
		ex.assume(ex.c.And(ex.c.Sle(ex.intConst(lo), t), ex.c.Sle(t, ex.intConst(hi))))
		return ex.intConst(ex.concretize(t, lo, hi))
	}
	symFuncs["ConcretizeBool"] = func(ex *Exec, fr *frame, fn *ssa.Function, args []Value) Value {
		return ex.c.Bool(ex.branch(args[0].(*T)))
	}
	symFuncs["Observe"] = func(ex *Exec, fr *frame, fn *ssa.Function, args []Value) Value {
		label := ex.constStrArg(args[0])
		ex.observed = append(ex.observed, Observation{Label: label, Val: args[1]})
		return nil
	}
	symFuncs["PoolNondet"] = func(ex *Exec, fr *frame, fn *ssa.Function, args []Value) Value {
		ex.poolND = args[0].(*T).IsTrue()
		return nil
	}
	symFuncs["Yield"] = func(ex *Exec, fr *frame, fn *ssa.Function, args []Value) Value {
		ex.yieldFree("sym.Yield")
		return nil
	}
	symFuncs["VirtualNow"] = func(ex *Exec, fr *frame, fn *ssa.Function, args []Value) Value {
		if ex.sched == nil {
			return ex.intConst(0)
		}
		return ex.intConst(ex.sched.vnow)
	}
	symFuncs["RestartProcess"] = func(ex *Exec, fr *frame, fn *ssa.Function, args []Value) Value {
		// the agent process ends and a new one starts: package-level state of the code under test is gone and
		// its package initialisers run again (lazily, at the next use); the clock keeps running
		for pkg := range ex.initDone {
			path := pkg.Pkg.Path()
			if !strings.HasPrefix(path, "github.com/relex/slog-agent") || strings.Contains(path, "/zz_verif") {
				continue
			}
			delete(ex.initDone, pkg)
			for _, m := range pkg.Members {
				if g, ok := m.(*ssa.Global); ok && !strings.HasPrefix(g.Name(), "verif") {
					delete(ex.globals, g)
				}
			}
		}
		return nil
	}
	symFuncs["Tier"] = func(ex *Exec, fr *frame, fn *ssa.Function, args []Value) Value {
		return ex.intConst(int64(ex.w.opts.tier))
	}
	symFuncs["Symbolic"] = func(ex *Exec, fr *frame, fn *ssa.Function, args []Value) Value {
		return ex.c.True
	}
	symFuncs["TimeFromUnixNano"] = func(ex *Exec, fr *frame, fn *ssa.Function, args []Value) Value {
		return ex.timeFromUnixNano(args[0].(*T))
	}
	symFuncs["Float64FromInt"] = func(ex *Exec, fr *frame, fn *ssa.Function, args []Value) Value {
		return ex.c.FFromS(args[0].(*T))
	}
	_ = types.Typ
}
