package main

import (
	"fmt"
	"go/token"
	"go/types"

	"golang.org/x/tools/go/ssa"
)

func (ex *Exec) unop(fr *frame, in *ssa.UnOp) Value {
	x := fr.get(in.X)
	if p, ok := x.(Poison); ok {
		panic(unsupported{p.why})
	}
	switch in.Op {
	case token.MUL: // load
		v := ex.load(x)
		if p, ok := v.(Poison); ok {
			panic(unsupported{p.why})
		}
		return v
	case token.NOT:
		return ex.c.Not(x.(*T))
	case token.SUB:
		t := x.(*T)
		if t.s.K == KFP {
			return ex.c.FNeg(t)
		}
		return ex.c.Neg(t)
	case token.XOR:
		return ex.c.BNot(x.(*T))
	case token.ARROW:
		return ex.chanRecv(fr, x, in.CommaOk, in.X.Type())
	}
	panic(unsupported{"unop " + in.Op.String()})
}

func (ex *Exec) binop(op token.Token, xt types.Type, x, y Value) Value {
	c := ex.c
	if p, ok := x.(Poison); ok {
		panic(unsupported{p.why})
	}
	if p, ok := y.(Poison); ok {
		panic(unsupported{p.why})
	}
	switch op {
	case token.EQL:
		return ex.valEq(xt, x, y)
	case token.NEQ:
		return c.Not(ex.valEq(xt, x, y))
	}
	if isString(xt) {
		a, b := x.(View), y.(View)
		switch op {
		case token.ADD:
			return ex.concat(a, b)
		case token.LSS:
			return c.Slt(ex.strCmp(a, b), ex.intConst(0))
		case token.LEQ:
			return c.Sle(ex.strCmp(a, b), ex.intConst(0))
		case token.GTR:
			return c.Slt(ex.intConst(0), ex.strCmp(a, b))
		case token.GEQ:
			return c.Sle(ex.intConst(0), ex.strCmp(a, b))
		}
		panic(unsupported{"string op " + op.String()})
	}
	a, ok1 := x.(*T)
	b, ok2 := y.(*T)
	if !ok1 || !ok2 {
		panic(unsupported{fmt.Sprintf("binop %s on %T,%T", op, x, y)})
	}
	if a.s.K == KFP {
		switch op {
		case token.ADD:
			return c.FAdd(a, b)
		case token.SUB:
			return c.FSub(a, b)
		case token.MUL:
			return c.FMul(a, b)
		case token.QUO:
			return c.FDiv(a, b)
		case token.LSS:
			return c.FLt(a, b)
		case token.LEQ:
			return c.FLe(a, b)
		case token.GTR:
			return c.FLt(b, a)
		case token.GEQ:
			return c.FLe(b, a)
		}
		panic(unsupported{"float op " + op.String()})
	}
	if a.s.K == KBool {
		switch op {
		case token.AND, token.LAND:
			return c.And(a, b)
		case token.OR, token.LOR:
			return c.Or(a, b)
		}
		panic(unsupported{"bool op " + op.String()})
	}
	_, signed, _ := intInfo(xt)
	w := a.s.W
	switch op {
	case token.ADD:
		return c.Add(a, b)
	case token.SUB:
		return c.Sub(a, b)
	case token.MUL:
		return c.Mul(a, b)
	case token.QUO, token.REM:
		ex.obligePanic(c.Ne(b, c.Const(w, 0)), "div-zero", "integer divide by zero")
		if signed {
			if op == token.QUO {
				return c.SDiv(a, b)
			}
			return c.SRem(a, b)
		}
		if op == token.QUO {
			return c.UDiv(a, b)
		}
		return c.URem(a, b)
	case token.AND:
		return c.BAnd(a, b)
	case token.OR:
		return c.BOr(a, b)
	case token.XOR:
		return c.BXor(a, b)
	case token.AND_NOT:
		return c.BAnd(a, c.BNot(b))
	case token.SHL, token.SHR:
		// shift count: any integer type; convert to width of a (saturating)
		cnt := ex.shiftCount(b, w)
		if op == token.SHL {
			return c.Shl(a, cnt)
		}
		if signed {
			return c.AShr(a, cnt)
		}
		return c.LShr(a, cnt)
	case token.LSS:
		if signed {
			return c.Slt(a, b)
		}
		return c.Ult(a, b)
	case token.LEQ:
		if signed {
			return c.Sle(a, b)
		}
		return c.Ule(a, b)
	case token.GTR:
		if signed {
			return c.Slt(b, a)
		}
		return c.Ult(b, a)
	case token.GEQ:
		if signed {
			return c.Sle(b, a)
		}
		return c.Ule(b, a)
	}
	panic(unsupported{"binop " + op.String()})
}

// shiftCount converts count b (any width) to width w, saturating at w.
func (ex *Exec) shiftCount(b *T, w int) *T {
	c := ex.c
	if k, ok := b.ConstU(); ok {
		if k > uint64(w) {
			k = uint64(w)
		}
		return c.Const(w, k)
	}
	if b.s.W == w {
		return b
	}
	if b.s.W < w {
		return c.ZExt(b, w)
	}
	// wider count: saturate
	big := c.Ult(c.Const(b.s.W, uint64(w)), b)
	return c.Ite(big, c.Const(w, uint64(w)), c.Extract(b, w-1, 0))
}

// obligePanic: a runtime-panic obligation.
func (ex *Exec) obligePanic(ob *T, kind, label string) { ex.oblige(ob, kind, label) }

// ---------- equality ----------

func (ex *Exec) valEq(t types.Type, x, y Value) *T {
	c := ex.c
	if up, ok := x.(UnsafePtr); ok {
		x = up.V
	}
	if up, ok := y.(UnsafePtr); ok {
		y = up.V
	}
	switch a := x.(type) {
	case *T:
		b, ok := y.(*T)
		if !ok {
			panic(unsupported{fmt.Sprintf("eq %T vs %T", x, y)})
		}
		if a.s.K == KFP {
			return c.FEq(a, b)
		}
		return c.Eq(a, b)
	case View:
		b := y.(View)
		if isString(t) {
			return ex.strEq(a, b)
		}
		// slices compare only against nil
		if b.O == nil {
			return c.Bool(a.O == nil)
		}
		if a.O == nil {
			return c.Bool(b.O == nil)
		}
		panic(unsupported{"slice comparison"})
	case *Value:
		switch b := y.(type) {
		case *Value:
			return c.Bool(a == b)
		case nil:
			return c.Bool(a == nil)
		case BytePtr:
			return c.Bool(a == nil && b.O == nil)
		}
		return c.False
	case BytePtr:
		switch b := y.(type) {
		case BytePtr:
			if a.O != b.O {
				return c.False
			}
			if a.O == nil {
				return c.True
			}
			return c.Eq(a.Off, b.Off)
		case *Value:
			return c.Bool(a.O == nil && b == nil)
		case nil:
			return c.Bool(a.O == nil)
		}
		return c.False
	case SliceV:
		b, ok := y.(SliceV)
		if ok && (a.A == nil || b.A == nil) {
			return c.Bool(a.A == nil && b.A == nil)
		}
		panic(unsupported{"slice comparison"})
	case *MapV:
		b, _ := y.(*MapV)
		return c.Bool(a == b)
	case *ChanV:
		b, _ := y.(*ChanV)
		return c.Bool(a == b)
	case nil:
		switch b := y.(type) {
		case nil:
			return c.True
		case *Closure:
			return c.Bool(b == nil)
		case *ssa.Function:
			return c.Bool(b == nil)
		case *Value:
			return c.Bool(b == nil)
		case BytePtr:
			return c.Bool(b.O == nil)
		}
		return c.False
	case *Closure:
		if y == nil {
			return c.Bool(a == nil)
		}
		panic(unsupported{"func comparison"})
	case *ssa.Function:
		if y == nil {
			return c.Bool(a == nil)
		}
		panic(unsupported{"func comparison"})
	case *ssa.Builtin:
		return c.False
	case Iface:
		b, ok := y.(Iface)
		if !ok {
			panic(unsupported{fmt.Sprintf("eq iface vs %T", y)})
		}
		if a.T == nil || b.T == nil {
			return c.Bool(a.T == nil && b.T == nil)
		}
		if !types.Identical(a.T, b.T) {
			return c.False
		}
		if !types.Comparable(a.T) {
			ex.goPanicNow("comparing uncomparable type " + a.T.String())
		}
		return ex.valEq(a.T, a.V, b.V)
	case Struct:
		b := y.(Struct)
		st := t.Underlying().(*types.Struct)
		var conj []*T
		for i := range a {
			if st.Field(i).Name() == "_" {
				continue
			}
			conj = append(conj, ex.valEq(st.Field(i).Type(), a[i], b[i]))
		}
		return c.And(conj...)
	case Array:
		b := y.(Array)
		et := t.Underlying().(*types.Array).Elem()
		var conj []*T
		for i := range a {
			conj = append(conj, ex.valEq(et, a[i], b[i]))
		}
		return c.And(conj...)
	case ByteArr:
		b := y.(ByteArr)
		n := ex.intConst(a.O.maxSize)
		z := ex.intConst(0)
		return ex.strEq(View{a.O, z, n, n}, View{b.O, z, n, n})
	}
	panic(unsupported{fmt.Sprintf("equality on %T", x)})
}

// ---------- strings and byte views ----------

const maxUnroll = 1 << 12

// maxLen returns a concrete upper bound of the view's length, or -1.
func (ex *Exec) maxLen(v View) int64 {
	if k, ok := v.Len.ConstS(); ok {
		return k
	}
	best := int64(-1)
	_, h := ex.c.urange(v.Len)
	if h < 1<<40 {
		best = int64(h)
	}
	if v.O != nil && v.O.maxSize >= 0 {
		m := v.O.maxSize
		if k, ok := v.Off.ConstS(); ok && k >= 0 && k <= m {
			m -= k
		}
		if best < 0 || m < best {
			best = m
		}
	}
	return best
}

func (ex *Exec) viewRead(v View, i *T) *T {
	if v.O == nil {
		return ex.c.Const(8, 0)
	}
	return ex.objRead(v.O, ex.c.Add(v.Off, i))
}

func (ex *Exec) strEq(a, b View) *T {
	c := ex.c
	if r, ok := ex.shapedCompare(a, b); ok {
		return c.Eq(r, ex.intConst(0))
	}
	la, okA := a.Len.ConstS()
	lb, okB := b.Len.ConstS()
	if okA && okB && la != lb {
		return c.False
	}
	if a.O == b.O && a.Off == b.Off {
		return c.Eq(a.Len, b.Len)
	}
	n := int64(-1)
	switch {
	case okA:
		n = la
	case okB:
		n = lb
	default:
		ma, mb := ex.maxLen(a), ex.maxLen(b)
		n = ma
		if n < 0 || (mb >= 0 && mb < n) {
			n = mb
		}
	}
	if n < 0 || n > maxUnroll {
		panic(unsupported{"comparison of strings without a small length bound"})
	}
	conj := []*T{c.Eq(a.Len, b.Len)}
	if conj[0].IsFalse() {
		return c.False
	}
	guardNeeded := !(okA || okB)
	for i := int64(0); i < n; i++ {
		it := ex.intConst(i)
		e := c.Eq(ex.viewRead(a, it), ex.viewRead(b, it))
		if guardNeeded {
			e = c.Or(c.Sle(a.Len, it), e)
		}
		if e.IsFalse() {
			return c.False
		}
		conj = append(conj, e)
	}
	return c.And(conj...)
}

// strCmp returns -1/0/+1 as a 64-bit term (lexicographic byte order).
func (ex *Exec) strCmp(a, b View) *T {
	c := ex.c
	if r, ok := ex.shapedCompare(a, b); ok {
		return r
	}
	ma, mb := ex.maxLen(a), ex.maxLen(b)
	n := ma
	if n < 0 || (mb >= 0 && mb < n) {
		n = mb
	}
	if n < 0 || n > maxUnroll {
		panic(unsupported{"ordering of strings without a small length bound"})
	}
	// result when one string is a prefix of the other up to n
	res := c.Ite(c.Slt(a.Len, b.Len), ex.intConst(-1), c.Ite(c.Slt(b.Len, a.Len), ex.intConst(1), ex.intConst(0)))
	for i := n - 1; i >= 0; i-- {
		it := ex.intConst(i)
		x, y := ex.viewRead(a, it), ex.viewRead(b, it)
		endA := c.Sle(a.Len, it)
		endB := c.Sle(b.Len, it)
		step := c.Ite(c.Ult(x, y), ex.intConst(-1), c.Ite(c.Ult(y, x), ex.intConst(1), res))
		res = c.Ite(c.And(endA, endB), ex.intConst(0),
			c.Ite(endA, ex.intConst(-1),
				c.Ite(endB, ex.intConst(1), step)))
	}
	return res
}

func (ex *Exec) concat(a, b View) View {
	c := ex.c
	if k, ok := a.Len.ConstS(); ok && k == 0 {
		return b
	}
	if k, ok := b.Len.ConstS(); ok && k == 0 {
		return a
	}
	n := c.Add(a.Len, b.Len)
	ma, mb := ex.maxLen(a), ex.maxLen(b)
	mx := int64(-1)
	if ma >= 0 && mb >= 0 {
		mx = ma + mb
	}
	o := ex.newByteObj(n, mx, &layer{kind: lZero}, "concat")
	z := ex.intConst(0)
	if a.O != nil {
		ex.objCopy(o, z, a.Len, ex.snapshot(a.O), a.Off)
	}
	if b.O != nil {
		ex.objCopy(o, a.Len, b.Len, ex.snapshot(b.O), b.Off)
	}
	return View{O: o, Off: z, Len: n, Cap: n}
}

// cloneView makes a fresh copy of the bytes of v (string(b), []byte(s)).
func (ex *Exec) cloneView(v View, label string) View {
	z := ex.intConst(0)
	if v.O == nil {
		if label == "bytes" {
			return ex.emptyView()
		}
		return ex.emptyView()
	}
	o := ex.cloneRange(v.O, v.Off, v.Len, ex.maxLen(v), label)
	return View{O: o, Off: z, Len: v.Len, Cap: v.Len}
}

// ---------- conversions ----------

func (ex *Exec) conv(dst, src types.Type, x Value) Value {
	c := ex.c
	if p, ok := x.(Poison); ok {
		panic(unsupported{p.why})
	}
	du, su := dst.Underlying(), src.Underlying()
	// unsafe.Pointer conversions
	if db, ok := du.(*types.Basic); ok && db.Kind() == types.UnsafePointer {
		switch v := x.(type) {
		case UnsafePtr:
			return v
		case *Value, BytePtr:
			return UnsafePtr{V: v}
		}
		panic(unsupported{fmt.Sprintf("conversion of %T to unsafe.Pointer", x)})
	}
	if sb, ok := su.(*types.Basic); ok && sb.Kind() == types.UnsafePointer {
		up, ok := x.(UnsafePtr)
		if !ok {
			panic(unsupported{"conversion from unsafe.Pointer of non-pointer"})
		}
		if _, isPtr := du.(*types.Pointer); isPtr {
			if up.V == nil {
				return ex.zero(dst)
			}
			return up.V
		}
		panic(unsupported{"unsafe.Pointer to " + dst.String()})
	}
	switch v := x.(type) {
	case *T:
		if dw, _, ok := intInfo(du); ok {
			if v.s.K == KFP {
				_, dsigned, _ := intInfo(du)
				if dsigned {
					return c.FToS(v, dw)
				}
				return c.FToU(v, dw)
			}
			if v.s.K == KBool {
				panic(unsupported{"bool to int"})
			}
			_, ssigned, _ := intInfo(su)
			if dw <= v.s.W {
				return c.Extract(v, dw-1, 0)
			}
			if ssigned {
				return c.SExt(v, dw)
			}
			return c.ZExt(v, dw)
		}
		if isFloat(du) {
			if v.s.K == KFP {
				if b := du.(*types.Basic); b.Kind() == types.Float32 {
					panic(unsupported{"float32"})
				}
				return v
			}
			_, ssigned, _ := intInfo(su)
			if ssigned {
				return c.FFromS(v)
			}
			return c.FFromU(v)
		}
		if isString(du) {
			// string(rune)
			if k, ok := v.ConstS(); ok {
				return ex.constString(string(rune(k)))
			}
			panic(unsupported{"string(symbolic rune)"})
		}
		if isBool(du) {
			return v
		}
	case View:
		if isString(du) && isByteSlice(su) && !isString(su) {
			return ex.cloneView(v, "string")
		}
		if isByteSlice(du) && !isString(du) && isString(su) {
			return ex.cloneView(v, "bytes")
		}
		if isString(du) && isString(su) {
			return v
		}
		if isByteSlice(du) && isByteSlice(su) {
			return v
		}
		if sl, ok := du.(*types.Slice); ok && isString(su) {
			// []rune(string) for concrete strings only
			if b, ok := sl.Elem().Underlying().(*types.Basic); ok && b.Kind() == types.Int32 {
				if n, ok := v.Len.ConstS(); ok && n <= 4096 {
					raw := make([]byte, 0, n)
					for i := int64(0); i < n; i++ {
						k, ok := ex.viewRead(v, ex.intConst(i)).ConstU()
						if !ok {
							panic(unsupported{"[]rune(symbolic string)"})
						}
						raw = append(raw, byte(k))
					}
					var out []Value
					for _, r := range string(raw) {
						out = append(out, c.ConstS(32, int64(r)))
					}
					return SliceV{A: out}
				}
			}
			panic(unsupported{"[]rune(string)"})
		}
	case SliceV:
		if isString(du) {
			// string([]rune) for concrete runes only
			rs := make([]rune, 0, len(v.A))
			for _, e := range v.A {
				t, ok := e.(*T)
				if !ok {
					panic(unsupported{"string([]rune)"})
				}
				k, ok := t.ConstS()
				if !ok {
					panic(unsupported{"string([]symbolic rune)"})
				}
				rs = append(rs, rune(k))
			}
			return ex.constString(string(rs))
		}
		return v
	}
	if types.Identical(du, su) {
		return x
	}
	panic(unsupported{fmt.Sprintf("conversion %v -> %v (%T)", src, dst, x)})
}

// ---------- slices, indexing ----------

func (ex *Exec) makeSlice(t types.Type, ln, cp *T) Value {
	c := ex.c
	st := t.Underlying().(*types.Slice)
	ex.oblige(c.Sle(ex.intConst(0), ln), "make-negative", "makeslice: len out of range")
	ex.oblige(c.Sle(ln, cp), "make-negative", "makeslice: cap out of range")
	if isByteType(st.Elem()) {
		_, h := c.urange(cp)
		mx := int64(-1)
		if h < 1<<40 {
			mx = int64(h)
		}
		o := ex.newByteObj(cp, mx, &layer{kind: lZero}, "make")
		return View{O: o, Off: ex.intConst(0), Len: ln, Cap: cp}
	}
	n := ex.concretize(cp, 0, 1<<12)
	l := ex.concretize(ln, 0, n)
	a := make([]Value, n)
	for i := range a {
		a[i] = ex.zero(st.Elem())
	}
	return SliceV{A: a[:l]}
}

func (ex *Exec) boundsOb(i, n *T, label string) {
	c := ex.c
	// 0 <= i < n  (unsigned comparison covers negatives)
	if ci, ok := i.ConstS(); ok && ci >= 0 {
		ex.oblige(c.Slt(i, n), "index-out-of-range", label)
		return
	}
	ex.oblige(c.And(c.Sle(ex.intConst(0), i), c.Slt(i, n)), "index-out-of-range", label)
}

func (ex *Exec) to64(t *T, typ types.Type) *T {
	if t.s.W == 64 {
		return t
	}
	_, signed, _ := intInfo(typ)
	if signed {
		return ex.c.SExt(t, 64)
	}
	return ex.c.ZExt(t, 64)
}

func (ex *Exec) indexAddr(fr *frame, in *ssa.IndexAddr) Value {
	x := fr.get(in.X)
	idx := ex.to64(fr.getT(in.Index), in.Index.Type())
	switch v := x.(type) {
	case View:
		ex.boundsOb(idx, v.Len, "index out of range")
		return BytePtr{O: v.O, Off: ex.c.Add(v.Off, idx)}
	case SliceV:
		return ex.cellIndex(v.A, idx, in.Type())
	case *Value: // pointer to array
		if v == nil {
			ex.fail("nil-deref", "nil pointer dereference (array index)")
		}
		switch arr := (*v).(type) {
		case Array:
			return ex.cellIndex([]Value(arr), idx, in.Type())
		case ByteArr:
			ex.boundsOb(idx, arr.O.size, "index out of range")
			return BytePtr{O: arr.O, Off: idx}
		case Poison:
			panic(unsupported{arr.why})
		}
		panic(unsupported{fmt.Sprintf("IndexAddr on pointer to %T", *v)})
	case Poison:
		panic(unsupported{v.why})
	}
	panic(unsupported{fmt.Sprintf("IndexAddr on %T", x)})
}

func (ex *Exec) cellIndex(a []Value, idx *T, ptrT types.Type) Value {
	n := int64(len(a))
	ex.boundsOb(idx, ex.intConst(n), "index out of range")
	if k, ok := idx.ConstS(); ok {
		if k < 0 || k >= n {
			panic(pathEnd{"index out of range"})
		}
		return &a[k]
	}
	// scalar elements: keep the index symbolic
	et := deref(ptrT)
	if _, _, isInt := intInfo(et); isInt || isBool(et) || isFloat(et) || isString(et) {
		return SymElemPtr{Elems: a, Idx: idx}
	}
	k := ex.concretize(idx, 0, n-1)
	return &a[k]
}

func (ex *Exec) indexOp(fr *frame, in *ssa.Index) Value {
	x := fr.get(in.X)
	idx := ex.to64(fr.getT(in.Index), in.Index.Type())
	switch v := x.(type) {
	case View:
		ex.boundsOb(idx, v.Len, "index out of range")
		return ex.viewRead(v, idx)
	case Array:
		p := ex.cellIndex([]Value(v), idx, types.NewPointer(in.Type()))
		return ex.load(p)
	case ByteArr:
		ex.boundsOb(idx, v.O.size, "index out of range")
		return ex.objRead(v.O, idx)
	}
	panic(unsupported{fmt.Sprintf("Index on %T", x)})
}

func (ex *Exec) sliceOp(fr *frame, in *ssa.Slice) Value {
	c := ex.c
	x := fr.get(in.X)
	var lo, hi, mx *T
	if in.Low != nil {
		lo = ex.to64(fr.getT(in.Low), in.Low.Type())
	}
	if in.High != nil {
		hi = ex.to64(fr.getT(in.High), in.High.Type())
	}
	if in.Max != nil {
		mx = ex.to64(fr.getT(in.Max), in.Max.Type())
	}
	z := ex.intConst(0)
	sliceView := func(v View, isStr bool) Value {
		l, h := lo, hi
		if l == nil {
			l = z
		}
		if h == nil {
			h = v.Len
		}
		limit := v.Cap
		if isStr {
			limit = v.Len
		}
		m := limit
		if mx != nil {
			m = mx
			ex.oblige(c.And(c.Sle(z, m), c.Sle(m, limit)), "slice-bounds", "slice bounds out of range (max)")
		}
		ex.oblige(c.And(c.Sle(z, h), c.Sle(h, m)), "slice-bounds", "slice bounds out of range (high)")
		ex.oblige(c.And(c.Sle(z, l), c.Sle(l, h)), "slice-bounds", "slice bounds out of range (low)")
		return View{O: v.O, Off: c.Add(v.Off, l), Len: c.Sub(h, l), Cap: c.Sub(m, l)}
	}
	switch v := x.(type) {
	case View:
		return sliceView(v, isString(in.X.Type()))
	case SliceV:
		n := int64(cap(v.A))
		l, h, m := int64(0), int64(len(v.A)), n
		if mx != nil {
			ex.oblige(c.And(c.Sle(z, mx), c.Sle(mx, ex.intConst(n))), "slice-bounds", "slice bounds out of range (max)")
			m = ex.concretize(mx, 0, n)
		}
		if hi != nil {
			ex.oblige(c.And(c.Sle(z, hi), c.Sle(hi, ex.intConst(m))), "slice-bounds", "slice bounds out of range (high)")
			h = ex.concretize(hi, 0, m)
		}
		if lo != nil {
			ex.oblige(c.And(c.Sle(z, lo), c.Sle(lo, ex.intConst(h))), "slice-bounds", "slice bounds out of range (low)")
			l = ex.concretize(lo, 0, h)
		}
		if v.A == nil {
			return SliceV{}
		}
		return SliceV{A: v.A[:m][l:h:m]}
	case *Value:
		if v == nil {
			ex.fail("nil-deref", "slice of nil array pointer")
		}
		switch arr := (*v).(type) {
		case ByteArr:
			n := arr.O.size
			return sliceView(View{O: arr.O, Off: z, Len: n, Cap: n}, false)
		case Array:
			n := int64(len(arr))
			l, h := int64(0), n
			if hi != nil {
				ex.oblige(c.And(c.Sle(z, hi), c.Sle(hi, ex.intConst(n))), "slice-bounds", "slice bounds out of range (high)")
				h = ex.concretize(hi, 0, n)
			}
			if lo != nil {
				ex.oblige(c.And(c.Sle(z, lo), c.Sle(lo, ex.intConst(h))), "slice-bounds", "slice bounds out of range (low)")
				l = ex.concretize(lo, 0, h)
			}
			return SliceV{A: []Value(arr)[l:h]}
		}
	case Poison:
		panic(unsupported{v.why})
	}
	panic(unsupported{fmt.Sprintf("Slice on %T", x)})
}

// ---------- maps ----------

func (ex *Exec) mapFind(m *MapV, key Value) int {
	if m == nil {
		return -1
	}
	for i := range m.keys {
		if !m.alive[i] {
			continue
		}
		eq := ex.valEq(m.keyT, m.keys[i], key)
		if ex.branch(eq) {
			return i
		}
	}
	return -1
}

func (ex *Exec) mapUpdate(m *MapV, key, val Value) {
	if i := ex.mapFind(m, key); i >= 0 {
		m.vals[i] = val
		return
	}
	// keys must not alias mutable memory: strings are immutable in Go, but
	// the repository's unsafe strings are not; keep the view as the program does.
	m.keys = append(m.keys, ex.copyVal(key))
	m.vals = append(m.vals, val)
	m.alive = append(m.alive, true)
}

func (ex *Exec) mapLen(m *MapV) int {
	if m == nil {
		return 0
	}
	n := 0
	for _, a := range m.alive {
		if a {
			n++
		}
	}
	return n
}

func (ex *Exec) lookup(fr *frame, in *ssa.Lookup) Value {
	x := fr.get(in.X)
	switch m := x.(type) {
	case *MapV:
		ex.mapAccessCheck(m, false)
		key := fr.get(in.Index)
		var v Value
		ok := false
		if i := ex.mapFind(m, key); i >= 0 {
			v = ex.copyVal(m.vals[i])
			ok = true
		} else {
			v = ex.zero(in.X.Type().Underlying().(*types.Map).Elem())
		}
		if in.CommaOk {
			return Tuple{v, ex.c.Bool(ok)}
		}
		return v
	case View:
		idx := ex.to64(fr.getT(in.Index), in.Index.Type())
		ex.boundsOb(idx, m.Len, "index out of range")
		return ex.viewRead(m, idx)
	case Poison:
		panic(unsupported{m.why})
	}
	panic(unsupported{fmt.Sprintf("Lookup on %T", x)})
}

// ---------- range ----------

func (ex *Exec) rangeIter(x Value, t types.Type) *RangeIter {
	switch v := x.(type) {
	case *MapV:
		ex.mapAccessCheck(v, false)
		it := &RangeIter{m: v}
		if v != nil {
			for i, a := range v.alive {
				if a {
					it.idxs = append(it.idxs, i)
				}
			}
		}
		return it
	case View:
		return &RangeIter{isStr: true, str: v, off: ex.intConst(0)}
	}
	panic(unsupported{fmt.Sprintf("range over %T", x)})
}

func (ex *Exec) rangeNext(it *RangeIter, in *ssa.Next) Value {
	c := ex.c
	if it.isStr {
		if !ex.branch(c.Slt(it.off, it.str.Len)) {
			return Tuple{c.False, ex.intConst(0), c.Const(32, 0)}
		}
		fn := ex.stdFunc("unicode/utf8", "DecodeRuneInString")
		rest := View{O: it.str.O, Off: c.Add(it.str.Off, it.off), Len: c.Sub(it.str.Len, it.off), Cap: c.Sub(it.str.Len, it.off)}
		r := ex.callFn(nil, fn, []Value{rest}, nil).(Tuple)
		idx := it.off
		it.off = c.Add(it.off, r[1].(*T))
		return Tuple{c.True, idx, r[0]}
	}
	for it.pos < len(it.idxs) {
		i := it.idxs[it.pos]
		it.pos++
		if it.m.alive[i] {
			return Tuple{c.True, it.m.keys[i], ex.copyVal(it.m.vals[i])}
		}
	}
	mt := in.Iter.(*ssa.Range).X.Type().Underlying().(*types.Map)
	return Tuple{c.False, ex.zero(mt.Key()), ex.zero(mt.Elem())}
}

func (ex *Exec) stdFunc(pkg, name string) *ssa.Function {
	p := ex.prog.ImportedPackage(pkg)
	if p == nil {
		panic(unsupported{"package not loaded: " + pkg})
	}
	f := p.Func(name)
	if f == nil {
		panic(unsupported{"function not found: " + pkg + "." + name})
	}
	return f
}

// ---------- type assertions ----------

func (ex *Exec) typeAssert(in *ssa.TypeAssert, x Value) Value {
	if p, ok := x.(Poison); ok {
		panic(unsupported{p.why})
	}
	itf, ok := x.(Iface)
	if !ok {
		panic(unsupported{fmt.Sprintf("TypeAssert on %T", x)})
	}
	var v Value
	okk := false
	if it, isI := in.AssertedType.Underlying().(*types.Interface); isI {
		if itf.T != nil && types.Implements(itf.T, it) {
			v, okk = itf, true
		}
	} else if itf.T != nil && types.Identical(itf.T, in.AssertedType) {
		v, okk = itf.V, true
	}
	if in.CommaOk {
		if !okk {
			v = ex.zero(in.AssertedType)
		}
		return Tuple{v, ex.c.Bool(okk)}
	}
	if !okk {
		ex.goPanicNow(fmt.Sprintf("interface conversion: %v is not %v", itf.T, in.AssertedType))
	}
	return v
}

// describe renders a panic value for messages.
func (ex *Exec) describe(v Value) string {
	switch x := v.(type) {
	case Iface:
		if x.T == nil {
			return "nil"
		}
		if vw, ok := x.V.(View); ok {
			return ex.viewString(vw)
		}
		if p, ok := x.V.(*Value); ok && p != nil {
			// errors.errorString and friends
			if st, ok := (*p).(Struct); ok && len(st) > 0 {
				if vw, ok := st[0].(View); ok {
					return x.T.String() + ": " + ex.viewString(vw)
				}
			}
		}
		return x.T.String()
	case View:
		return ex.viewString(x)
	}
	return fmt.Sprintf("%T", v)
}

// viewString renders the bytes of v when they are concrete.
func (ex *Exec) viewString(v View) string {
	n, ok := v.Len.ConstS()
	if !ok || n > 200 {
		return "<symbolic string>"
	}
	b := make([]byte, 0, n)
	for i := int64(0); i < n; i++ {
		t := ex.viewRead(v, ex.intConst(i))
		k, ok := t.ConstU()
		if !ok {
			b = append(b, '?')
		} else {
			b = append(b, byte(k))
		}
	}
	return string(b)
}
