package main

import (
	"fmt"
	"go/types"
	"strings"

	"golang.org/x/tools/go/ssa"
)

func (ex *Exec) callBuiltin(fr *frame, b *ssa.Builtin, args []Value) Value {
	c := ex.c
	for _, a := range args {
		if p, ok := a.(Poison); ok {
			panic(unsupported{p.why})
		}
	}
	switch b.Name() {
	case "len":
		switch v := args[0].(type) {
		case View:
			return v.Len
		case SliceV:
			return ex.intConst(int64(len(v.A)))
		case *MapV:
			return ex.intConst(int64(ex.mapLen(v)))
		case *ChanV:
			return ex.intConst(int64(ex.chanLen(v)))
		case Array:
			return ex.intConst(int64(len(v)))
		case ByteArr:
			return v.O.size
		case *Value:
			if v == nil {
				return ex.intConst(0)
			}
			switch a := (*v).(type) {
			case Array:
				return ex.intConst(int64(len(a)))
			case ByteArr:
				return a.O.size
			}
		}
		panic(unsupported{fmt.Sprintf("len of %T", args[0])})
	case "cap":
		switch v := args[0].(type) {
		case View:
			return v.Cap
		case SliceV:
			return ex.intConst(int64(cap(v.A)))
		case *ChanV:
			if v == nil {
				return ex.intConst(0)
			}
			return ex.intConst(int64(v.capacity))
		case Array:
			return ex.intConst(int64(len(v)))
		}
		panic(unsupported{fmt.Sprintf("cap of %T", args[0])})
	case "append":
		return ex.appendOp(args[0], args[1])
	case "copy":
		return ex.copyOp(args[0], args[1])
	case "delete":
		m := args[0].(*MapV)
		ex.mapAccessCheck(m, true)
		if i := ex.mapFind(m, args[1]); i >= 0 {
			m.alive[i] = false
		}
		return nil
	case "clear":
		switch v := args[0].(type) {
		case *MapV:
			if v != nil {
				for i := range v.alive {
					v.alive[i] = false
				}
			}
			return nil
		}
		// clear(slice): every element becomes the zero value of the element type
		if sig, ok := b.Type().(*types.Signature); ok && sig.Params().Len() == 1 {
			if st, ok := sig.Params().At(0).Type().Underlying().(*types.Slice); ok {
				switch v := args[0].(type) {
				case SliceV:
					for i := range v.A {
						v.A[i] = ex.zero(st.Elem())
					}
					return nil
				case View:
					if n, ok := v.Len.ConstS(); ok && n <= 1<<16 {
						if o, ok2 := v.Off.ConstS(); ok2 {
							for i := int64(0); i < n; i++ {
								ex.objStore(v.O, ex.intConst(o+i), c.Const(8, 0))
							}
							return nil
						}
					}
				}
			}
		}
		panic(unsupported{"clear on slice"})
	case "close":
		ex.chanClose(fr, args[0])
		return nil
	case "panic":
		panic(&goPanic{val: args[0], site: ex.siteForViolation(), msg: ex.describe(args[0]), trace: ex.trace()})
	case "recover":
		// effective only when called directly by a deferred function of a panicking frame
		if fr != nil && fr.caller != nil && fr.caller.panicking {
			fr.caller.panicking = false
			gp := fr.caller.panicVal
			fr.caller.panicVal = nil
			if iv, ok := gp.val.(Iface); ok {
				return iv
			}
			return Iface{T: types.Typ[types.String], V: ex.constString(gp.msg)}
		}
		return Iface{}
	case "print", "println":
		return nil
	case "min", "max":
		res := args[0].(*T)
		sig := b.Type().(*types.Signature)
		_, signed, _ := intInfo(sig.Params().At(0).Type())
		for _, a := range args[1:] {
			t := a.(*T)
			var lt *T
			if res.s.K == KFP {
				lt = c.FLt(t, res)
			} else if signed {
				lt = c.Slt(t, res)
			} else {
				lt = c.Ult(t, res)
			}
			if b.Name() == "max" {
				lt = c.Not(c.Or(lt, c.Eq(t, res)))
			}
			res = c.Ite(lt, t, res)
		}
		return res
	case "ssa:wrapnilchk":
		if p, ok := args[0].(*Value); ok && p == nil {
			ex.goPanicNow("value method called using nil pointer")
		}
		return args[0]
	// unsafe
	case "String", "Slice":
		n := ex.to64(args[1].(*T), types.Typ[types.Int])
		switch p := args[0].(type) {
		case BytePtr:
			if p.O == nil {
				return ex.emptyView()
			}
			return View{O: p.O, Off: p.Off, Len: n, Cap: n}
		case UnsafePtr:
			if bp, ok := p.V.(BytePtr); ok {
				return View{O: bp.O, Off: bp.Off, Len: n, Cap: n}
			}
		}
		panic(unsupported{fmt.Sprintf("unsafe.%s on %T", b.Name(), args[0])})
	case "StringData", "SliceData":
		switch v := args[0].(type) {
		case View:
			return BytePtr{O: v.O, Off: v.Off}
		}
		panic(unsupported{fmt.Sprintf("unsafe.%s on %T", b.Name(), args[0])})
	case "Add":
		if up, ok := args[0].(UnsafePtr); ok {
			if bp, ok := up.V.(BytePtr); ok {
				return UnsafePtr{V: BytePtr{O: bp.O, Off: c.Add(bp.Off, ex.to64(args[1].(*T), types.Typ[types.Int]))}}
			}
		}
		panic(unsupported{"unsafe.Add"})
	}
	panic(unsupported{"builtin " + b.Name()})
}

func (ex *Exec) appendOp(dst, src Value) Value {
	c := ex.c
	switch d := dst.(type) {
	case View:
		s, ok := src.(View)
		if !ok {
			panic(unsupported{fmt.Sprintf("append of %T to bytes", src)})
		}
		if k, isC := s.Len.ConstS(); isC && k == 0 {
			return d
		}
		need := c.Add(d.Len, s.Len)
		var snap *layer
		if s.O != nil {
			snap = ex.snapshot(s.O)
		}
		if d.O != nil && ex.branch(c.Sle(need, d.Cap)) {
			if snap != nil {
				ex.objCopy(d.O, c.Add(d.Off, d.Len), s.Len, snap, s.Off)
			}
			return View{O: d.O, Off: d.Off, Len: need, Cap: d.Cap}
		}
		// grow: new capacity = max(need, 2*cap) when concrete, else need
		newCap := need
		mx := int64(-1)
		if kn, ok1 := need.ConstS(); ok1 {
			nc := kn
			if kc, ok2 := d.Cap.ConstS(); ok2 && 2*kc > nc {
				nc = 2 * kc
			}
			if nc < 8 {
				nc = 8
			}
			newCap = ex.intConst(nc)
			mx = nc
		} else {
			md, ms := ex.maxLen(d), ex.maxLen(s)
			if md >= 0 && ms >= 0 {
				mx = md + ms
			}
		}
		o := ex.newByteObj(newCap, mx, &layer{kind: lZero}, "append")
		z := ex.intConst(0)
		if d.O != nil {
			ex.objCopy(o, z, d.Len, ex.snapshot(d.O), d.Off)
		}
		if snap != nil {
			ex.objCopy(o, d.Len, s.Len, snap, s.Off)
		}
		return View{O: o, Off: z, Len: need, Cap: newCap}
	case SliceV:
		s, ok := src.(SliceV)
		if !ok {
			panic(unsupported{fmt.Sprintf("append of %T to slice", src)})
		}
		if len(s.A) == 0 {
			return d
		}
		out := d.A
		for _, e := range s.A {
			out = append(out, ex.copyVal(e))
		}
		return SliceV{A: out}
	}
	panic(unsupported{fmt.Sprintf("append to %T", dst)})
}

func (ex *Exec) copyOp(dst, src Value) Value {
	c := ex.c
	switch d := dst.(type) {
	case View:
		s := src.(View)
		n := c.Ite(c.Slt(d.Len, s.Len), d.Len, s.Len)
		if d.O != nil && s.O != nil {
			ex.objCopy(d.O, d.Off, n, ex.snapshot(s.O), s.Off)
		}
		return n
	case SliceV:
		s := src.(SliceV)
		n := len(d.A)
		if len(s.A) < n {
			n = len(s.A)
		}
		tmp := make([]Value, n)
		for i := 0; i < n; i++ {
			tmp[i] = ex.copyVal(s.A[i])
		}
		for i := 0; i < n; i++ {
			ex.storeInto(&d.A[i], tmp[i])
		}
		return ex.intConst(int64(n))
	}
	panic(unsupported{fmt.Sprintf("copy to %T", dst)})
}

// ---------- intrinsics ----------

type intrinsic func(ex *Exec, fr *frame, fn *ssa.Function, args []Value) Value

var intrinsics = map[string]intrinsic{}

const symPkgSuffix = "/zz_verif/sym"

func lookupIntrinsic(ex *Exec, fn *ssa.Function) intrinsic {
	key := fnKey(fn)
	if f, ok := intrinsics[key]; ok {
		return f
	}
	var pkgPath string
	if fn.Pkg != nil {
		pkgPath = fn.Pkg.Pkg.Path()
	} else if o := fn.Origin(); o != nil && o.Pkg != nil {
		pkgPath = o.Pkg.Pkg.Path()
	} else if fn.Object() != nil && fn.Object().Pkg() != nil {
		pkgPath = fn.Object().Pkg().Path()
	}
	switch {
	case strings.HasSuffix(pkgPath, symPkgSuffix):
		if f, ok := symFuncs[fn.Name()]; ok {
			return f
		}
		if fn.Blocks != nil {
			return nil
		}
		panic(unsupported{"unknown sym function " + fn.Name()})
	case pkgPath == "github.com/relex/gotils/logger":
		return loggerStub
	case pkgPath == "github.com/sirupsen/logrus":
		return loggerStub
	}
	return nil
}

func loggerStub(ex *Exec, fr *frame, fn *ssa.Function, args []Value) Value {
	name := fn.Name()
	switch {
	case strings.HasPrefix(name, "Panic"):
		msg := "logger." + name
		panic(&goPanic{val: Iface{T: types.Typ[types.String], V: ex.constString(msg)}, site: ex.siteForViolation(), msg: msg + ex.describeArgs(args), trace: ex.trace()})
	case strings.HasPrefix(name, "Fatal"), name == "Exit":
		ex.fail("fatal-exit", "logger."+name+" terminates the process")
	}
	res := fn.Signature.Results()
	switch res.Len() {
	case 0:
		return nil
	case 1:
		// With*/NewLogger...: return the receiver when types match, else zero
		if fn.Signature.Recv() != nil && len(args) > 0 && types.Identical(fn.Signature.Recv().Type(), res.At(0).Type()) {
			return args[0]
		}
		return ex.zero(res.At(0).Type())
	}
	return ex.zero(res)
}

func (ex *Exec) describeArgs(args []Value) string {
	var sb strings.Builder
	for _, a := range args {
		switch v := a.(type) {
		case View:
			sb.WriteString(" " + ex.viewString(v))
		case SliceV:
			for _, e := range v.A {
				if iv, ok := e.(Iface); ok {
					sb.WriteString(" " + ex.describe(iv))
				}
			}
		}
	}
	s := sb.String()
	if len(s) > 160 {
		s = s[:160]
	}
	return s
}

func (ex *Exec) opaqueString(label string) View {
	ex.nextOpaque++
	name := fmt.Sprintf("opq%d", ex.nextOpaque)
	n := ex.c.Var(name+"_len", BV(64))
	ex.addPC(ex.c.And(ex.c.Sle(ex.intConst(0), n), ex.c.Sle(n, ex.intConst(24))))
	o := ex.newByteObj(n, 24, &layer{kind: lUF, uf: name}, label)
	return View{O: o, Off: ex.intConst(0), Len: n, Cap: n}
}

func (ex *Exec) makeError(msg View) Value {
	fn := ex.stdFunc("errors", "New")
	return ex.callFn(nil, fn, []Value{msg}, nil)
}

func init() {
	reg := func(names []string, f intrinsic) {
		for _, n := range names {
			intrinsics[n] = f
		}
	}
	opaqueStr := func(ex *Exec, fr *frame, fn *ssa.Function, args []Value) Value {
		return ex.opaqueString("fmt")
	}
	reg([]string{"fmt.Sprint", "fmt.Sprintln"}, opaqueStr)
	reg([]string{"fmt.Sprintf"}, func(ex *Exec, fr *frame, fn *ssa.Function, args []Value) Value {
		if v, ok := ex.sprintf(args); ok {
			return v
		}
		return ex.opaqueString("fmt")
	})
	reg([]string{"fmt.Errorf"}, func(ex *Exec, fr *frame, fn *ssa.Function, args []Value) Value {
		return ex.makeError(ex.opaqueString("fmt.Errorf"))
	})
	reg([]string{"fmt.Printf", "fmt.Println", "fmt.Print", "fmt.Fprintf", "fmt.Fprintln", "fmt.Fprint"}, func(ex *Exec, fr *frame, fn *ssa.Function, args []Value) Value {
		return Tuple{ex.intConst(0), Iface{}}
	})
	reg([]string{"internal/bytealg.IndexByteString", "internal/bytealg.IndexByte"}, func(ex *Exec, fr *frame, fn *ssa.Function, args []Value) Value {
		return ex.indexByte(args[0].(View), args[1].(*T), false)
	})
	reg([]string{"internal/bytealg.LastIndexByteString", "internal/bytealg.LastIndexByte", "bytes.LastIndexByte", "strings.LastIndexByte"}, func(ex *Exec, fr *frame, fn *ssa.Function, args []Value) Value {
		return ex.indexByte(args[0].(View), args[1].(*T), true)
	})
	reg([]string{"internal/bytealg.CountString", "internal/bytealg.Count"}, func(ex *Exec, fr *frame, fn *ssa.Function, args []Value) Value {
		v := args[0].(View)
		n := ex.maxLen(v)
		if n < 0 || n > maxUnroll {
			panic(unsupported{"Count over unbounded bytes"})
		}
		res := ex.intConst(0)
		for i := int64(0); i < n; i++ {
			it := ex.intConst(i)
			hit := ex.c.And(ex.c.Slt(it, v.Len), ex.c.Eq(ex.viewRead(v, it), args[1].(*T)))
			res = ex.c.Add(res, ex.c.Ite(hit, ex.intConst(1), ex.intConst(0)))
		}
		return res
	})
	reg([]string{"internal/bytealg.Equal", "bytes.Equal"}, func(ex *Exec, fr *frame, fn *ssa.Function, args []Value) Value {
		return ex.strEq(args[0].(View), args[1].(View))
	})
	reg([]string{"internal/bytealg.Compare", "bytes.Compare", "strings.Compare", "internal/bytealg.CompareString", "runtime.cmpstring"}, func(ex *Exec, fr *frame, fn *ssa.Function, args []Value) Value {
		return ex.strCmp(args[0].(View), args[1].(View))
	})
	reg([]string{"strings.Index", "bytes.Index", "internal/bytealg.IndexString", "internal/bytealg.Index", "internal/stringslite.Index"}, func(ex *Exec, fr *frame, fn *ssa.Function, args []Value) Value {
		return ex.indexSub(args[0].(View), args[1].(View), false)
	})
	reg([]string{"strings.LastIndex", "bytes.LastIndex"}, func(ex *Exec, fr *frame, fn *ssa.Function, args []Value) Value {
		return ex.indexSub(args[0].(View), args[1].(View), true)
	})
	reg([]string{"strings.Contains", "bytes.Contains"}, func(ex *Exec, fr *frame, fn *ssa.Function, args []Value) Value {
		r := ex.indexSub(args[0].(View), args[1].(View), false)
		return ex.c.Sle(ex.intConst(0), r)
	})
	reg([]string{"internal/bytealg.MakeNoZero"}, func(ex *Exec, fr *frame, fn *ssa.Function, args []Value) Value {
		n := args[0].(*T)
		return ex.makeSlice(types.NewSlice(types.Typ[types.Byte]), n, n)
	})
	ident := func(ex *Exec, fr *frame, fn *ssa.Function, args []Value) Value { return args[0] }
	reg([]string{"internal/abi.NoEscape", "internal/abi.Escape", "strings.noescape"}, ident)
	nop := func(ex *Exec, fr *frame, fn *ssa.Function, args []Value) Value {
		res := fn.Signature.Results()
		switch res.Len() {
		case 0:
			return nil
		case 1:
			return ex.zero(res.At(0).Type())
		}
		return ex.zero(res)
	}
	reg([]string{"runtime.KeepAlive", "runtime.Gosched", "runtime.GC", "runtime.SetFinalizer", "runtime/debug.Stack", "runtime/debug.PrintStack",
		"internal/race.Acquire", "internal/race.Release", "internal/race.ReleaseMerge", "internal/race.Disable", "internal/race.Enable",
		"internal/race.Read", "internal/race.Write", "internal/race.ReadRange", "internal/race.WriteRange",
		"os.Exit"}, nop)
	intrinsics["os.Exit"] = func(ex *Exec, fr *frame, fn *ssa.Function, args []Value) Value {
		ex.fail("fatal-exit", "os.Exit")
		return nil
	}
	reg([]string{"math.Float64bits"}, func(ex *Exec, fr *frame, fn *ssa.Function, args []Value) Value {
		t := args[0].(*T)
		if t.IsConst() {
			return ex.c.Const(64, t.c)
		}
		panic(unsupported{"Float64bits of symbolic float"})
	})
	reg([]string{"math.Float64frombits"}, func(ex *Exec, fr *frame, fn *ssa.Function, args []Value) Value {
		return ex.c.FFromBits(args[0].(*T))
	})
	reg([]string{"math/bits.LeadingZeros32"}, func(ex *Exec, fr *frame, fn *ssa.Function, args []Value) Value {
		return ex.clz(args[0].(*T), 32)
	})
	reg([]string{"math/bits.LeadingZeros64"}, func(ex *Exec, fr *frame, fn *ssa.Function, args []Value) Value {
		return ex.clz(args[0].(*T), 64)
	})
	reg([]string{"math/bits.Len32"}, func(ex *Exec, fr *frame, fn *ssa.Function, args []Value) Value {
		return ex.c.Sub(ex.intConst(32), ex.clz(args[0].(*T), 32))
	})
	reg([]string{"math/bits.Len64", "math/bits.Len"}, func(ex *Exec, fr *frame, fn *ssa.Function, args []Value) Value {
		return ex.c.Sub(ex.intConst(64), ex.clz(args[0].(*T), 64))
	})
	// sync.Pool
	intrinsics["(*sync.Pool).Get"] = func(ex *Exec, fr *frame, fn *ssa.Function, args []Value) Value {
		p := args[0].(*Value)
		list := ex.pools[p]
		pick := -1
		if len(list) > 0 {
			if ex.poolND {
				k := ex.choose(len(list) + 1)
				pick = k - 1
			} else {
				pick = len(list) - 1
			}
		}
		if pick >= 0 {
			v := list[pick]
			ex.pools[p] = append(append([]Value{}, list[:pick]...), list[pick+1:]...)
			return v
		}
		st := (*p).(Struct)
		// field "New" is the last field of sync.Pool
		newFn := st[len(st)-1]
		if newFn == nil {
			return Iface{}
		}
		return ex.call(fr, newFn, nil)
	}
	intrinsics["(*sync.Pool).Put"] = func(ex *Exec, fr *frame, fn *ssa.Function, args []Value) Value {
		p := args[0].(*Value)
		if iv, ok := args[1].(Iface); ok && iv.T == nil {
			return nil
		}
		ex.pools[p] = append(ex.pools[p], args[1])
		return nil
	}
	// time
	intrinsics["time.Now"] = func(ex *Exec, fr *frame, fn *ssa.Function, args []Value) Value {
		return ex.timeNow()
	}
	intrinsics["(time.Time).UnixNano"] = func(ex *Exec, fr *frame, fn *ssa.Function, args []Value) Value {
		if st, ok := args[0].(Struct); ok && len(st) == 3 {
			if ns, ok := st[0].(*T); ok {
				if t, ok := ex.timeOrigin[ns]; ok {
					if ext, ok := st[1].(*T); ok {
						// only for an unmodified reading (same seconds term as built by timeFromUnixNano)
						const unixToInternal = (1969*365 + 1969/4 - 1969/100 + 1969/400) * 86400
						if ext == ex.c.Add(ex.c.SDiv(t, ex.intConst(1_000_000_000)), ex.intConst(unixToInternal)) {
							return t
						}
					}
				}
			}
		}
		return ex.callFnNoIntrinsic(fr, fn, args)
	}
	intrinsics["time.Since"] = func(ex *Exec, fr *frame, fn *ssa.Function, args []Value) Value {
		// Since(t) for a clock reading t = (a new, non-decreasing clock reading) - t; the monotonic clock of one
		// process never runs backwards, so the difference is never negative
		if st, ok := args[0].(Struct); ok && len(st) == 3 {
			if ns, ok := st[0].(*T); ok {
				if t0, ok := ex.timeOrigin[ns]; ok {
					now := ex.timeNow().(Struct)
					if t1, ok := ex.timeOrigin[now[0].(*T)]; ok {
						return ex.c.Sub(t1, t0)
					}
				}
			}
		}
		ex.nextOpaque++
		d := ex.c.Var(fmt.Sprintf("since%d", ex.nextOpaque), BV(64))
		ex.addPC(ex.c.And(ex.c.Sle(ex.intConst(0), d), ex.c.Sle(d, ex.intConst(1<<50))))
		return d
	}
	intrinsics["time.Sleep"] = func(ex *Exec, fr *frame, fn *ssa.Function, args []Value) Value {
		ex.sleep(args[0])
		return nil
	}
	intrinsics["os.Getenv"] = func(ex *Exec, fr *frame, fn *ssa.Function, args []Value) Value {
		return ex.emptyView()
	}
	// errors.Is / errors.Unwrap: the standard loop (identity, then an Is method, then Unwrap), with the dynamic-type
	// questions answered from the interface value instead of through reflectlite
	errMethod := func(ex *Exec, iv Iface, name string) *ssa.Function {
		if iv.T == nil {
			return nil
		}
		ms := ex.prog.MethodSets.MethodSet(iv.T)
		for i := 0; i < ms.Len(); i++ {
			if sel := ms.At(i); sel.Obj().Name() == name {
				return ex.prog.MethodValue(sel)
			}
		}
		return nil
	}
	unwrapOnce := func(ex *Exec, fr *frame, iv Iface) (Iface, bool) {
		f := errMethod(ex, iv, "Unwrap")
		if f == nil || f.Signature.Params().Len() != 0 || f.Signature.Results().Len() != 1 {
			return Iface{}, false
		}
		if _, isSlice := f.Signature.Results().At(0).Type().Underlying().(*types.Slice); isSlice {
			panic(unsupported{"errors.Is over Unwrap() []error"})
		}
		r, ok := ex.call(fr, f, []Value{iv.V}).(Iface)
		return r, ok
	}
	intrinsics["errors.Unwrap"] = func(ex *Exec, fr *frame, fn *ssa.Function, args []Value) Value {
		iv, _ := args[0].(Iface)
		if r, ok := unwrapOnce(ex, fr, iv); ok {
			return r
		}
		return Iface{}
	}
	intrinsics["errors.Is"] = func(ex *Exec, fr *frame, fn *ssa.Function, args []Value) Value {
		err, _ := args[0].(Iface)
		target, _ := args[1].(Iface)
		errT := fn.Signature.Params().At(0).Type()
		for depth := 0; depth < 16; depth++ {
			if err.T == nil {
				return ex.c.Bool(target.T == nil)
			}
			if target.T != nil && types.Comparable(target.T) && types.Identical(err.T, target.T) {
				if ex.branch(ex.valEq(errT, err, target)) {
					return ex.c.True
				}
			}
			if f := errMethod(ex, err, "Is"); f != nil && f.Signature.Params().Len() == 1 && f.Signature.Results().Len() == 1 {
				if r, ok := ex.call(fr, f, []Value{err.V, target}).(*T); ok && ex.branch(r) {
					return ex.c.True
				}
			}
			next, ok := unwrapOnce(ex, fr, err)
			if !ok {
				return ex.c.False
			}
			err = next
		}
		panic(unsupported{"errors.Is: chain deeper than 16"})
	}
	intrinsics["os.Getpid"] = func(ex *Exec, fr *frame, fn *ssa.Function, args []Value) Value {
		return ex.intConst(4242)
	}
	registerSyncIntrinsics()
	// sort.Slice / sort.SliceStable: insertion sort driven by the real less closure
	sortSlice := func(ex *Exec, fr *frame, fn *ssa.Function, args []Value) Value {
		iv, ok := args[0].(Iface)
		if !ok {
			panic(unsupported{"sort.Slice argument"})
		}
		sl, ok := iv.V.(SliceV)
		if !ok {
			panic(unsupported{"sort.Slice of non-cell slice"})
		}
		less := args[1]
		a := sl.A
		for i := 1; i < len(a); i++ {
			for j := i; j > 0; j-- {
				r := ex.call(fr, less, []Value{ex.intConst(int64(j)), ex.intConst(int64(j - 1))}).(*T)
				if !ex.branch(r) {
					break
				}
				tmp := ex.copyVal(a[j])
				ex.storeInto(&a[j], ex.copyVal(a[j-1]))
				ex.storeInto(&a[j-1], tmp)
			}
		}
		return nil
	}
	intrinsics["sort.Slice"] = sortSlice
	intrinsics["sort.SliceStable"] = sortSlice
	intrinsics["sort.Strings"] = func(ex *Exec, fr *frame, fn *ssa.Function, args []Value) Value {
		sl := args[0].(SliceV)
		a := sl.A
		for i := 1; i < len(a); i++ {
			for j := i; j > 0; j-- {
				lt := ex.c.Slt(ex.strCmp(a[j].(View), a[j-1].(View)), ex.intConst(0))
				if !ex.branch(lt) {
					break
				}
				a[j], a[j-1] = a[j-1], a[j]
			}
		}
		return nil
	}
	// unsafe string<->[]byte views of the msgpack library: the same bytes under the other type
	intrinsics["github.com/vmihailenco/msgpack/v4.stringToBytes"] = func(ex *Exec, fr *frame, fn *ssa.Function, args []Value) Value {
		v := args[0].(View)
		v.Cap = v.Len
		return v
	}
	intrinsics["github.com/vmihailenco/msgpack/v4.bytesToString"] = func(ex *Exec, fr *frame, fn *ssa.Function, args []Value) Value {
		return args[0]
	}
	intrinsics["os/signal.Notify"] = func(ex *Exec, fr *frame, fn *ssa.Function, args []Value) Value { return nil }
	intrinsics["os/signal.Stop"] = func(ex *Exec, fr *frame, fn *ssa.Function, args []Value) Value { return nil }
}

func (ex *Exec) clz(x *T, w int) *T {
	c := ex.c
	if x.s.W != w {
		panic(unsupported{"clz width"})
	}
	res := ex.intConst(int64(w))
	for i := 0; i < w; i++ {
		// highest set bit i => clz = w-1-i ; iterate from low to high so higher bits win
		bit := c.Extract(x, i, i)
		res = c.Ite(c.Eq(bit, c.Const(1, 1)), ex.intConst(int64(w-1-i)), res)
	}
	return res
}

func (ex *Exec) timeNow() Value {
	c := ex.c
	if ex.h.VirtualClock && ex.sched != nil {
		// concrete discrete-event clock (advances when timers fire)
		return ex.timeFromUnixNano(ex.intConst(1_600_000_000_000_000_000 + ex.sched.vnow))
	}
	ex.nowCount++
	t := c.Var(fmt.Sprintf("now%d", ex.nowCount), BV(64)) // unix nanoseconds
	lo := ex.intConst(1_500_000_000_000_000_000)
	hi := ex.intConst(4_000_000_000_000_000_000)
	ex.addPC(c.And(c.Sle(lo, t), c.Sle(t, hi)))
	if ex.lastNow != nil {
		ex.addPC(c.Sle(ex.lastNow, t))
	}
	if ex.ev != nil {
		// keep the witness model valid: the new reading equals the previous one (or the lower bound)
		v := uint64(1_500_000_000_000_000_000)
		if ex.lastNow != nil {
			v = ex.ev.Eval(ex.lastNow)
		}
		ex.model.Vars[t.name] = v
		ex.setModel(ex.model)
	}
	ex.lastNow = t
	ex.inputs = append(ex.inputs, InputRec{Name: fmt.Sprintf("now%d", ex.nowCount), Kind: "time", Term: t})
	return ex.timeFromUnixNano(t)
}

// timeFromUnixNano builds a time.Time struct value {wall, ext, loc} without
// monotonic reading: wall = nsec (30 bits), ext = seconds since year 1.
func (ex *Exec) timeFromUnixNano(t *T) Value {
	c := ex.c
	e9 := ex.intConst(1_000_000_000)
	sec := c.SDiv(t, e9)
	nsec := c.SRem(t, e9)
	const unixToInternal = (1969*365 + 1969/4 - 1969/100 + 1969/400) * 86400
	ext := c.Add(sec, ex.intConst(unixToInternal))
	localLoc := ex.globalAddr(ex.prog.ImportedPackage("time").Var("localLoc"))
	if ex.timeOrigin == nil {
		ex.timeOrigin = map[*T]*T{}
	}
	ex.timeOrigin[nsec] = t // lets (time.Time).UnixNano return t itself instead of sec*1e9+nsec
	return Struct{nsec, ext, localLoc}
}

// indexByte models IndexByte / LastIndexByte.
func (ex *Exec) indexByte(v View, b *T, last bool) *T {
	c := ex.c
	n := ex.maxLen(v)
	if n < 0 || n > maxUnroll {
		// length-abstract: over-approximate with a fresh result
		ex.nextOpaque++
		r := c.Var(fmt.Sprintf("idx%d", ex.nextOpaque), BV(64))
		ex.approx = append(ex.approx, "IndexByte over unbounded bytes (first-occurrence not enforced)")
		found := c.And(c.Sle(ex.intConst(0), r), c.Slt(r, v.Len))
		ex.addPC(c.Or(c.Eq(r, ex.intConst(-1)), found))
		ex.addPC(c.Or(c.Eq(r, ex.intConst(-1)), c.Eq(ex.viewRead(v, r), b)))
		return r
	}
	res := ex.intConst(-1)
	if !last {
		for i := n - 1; i >= 0; i-- {
			it := ex.intConst(i)
			hit := c.And(c.Slt(it, v.Len), c.Eq(ex.viewRead(v, it), b))
			res = c.Ite(hit, it, res)
		}
	} else {
		for i := int64(0); i < n; i++ {
			it := ex.intConst(i)
			hit := c.And(c.Slt(it, v.Len), c.Eq(ex.viewRead(v, it), b))
			res = c.Ite(hit, it, res)
		}
	}
	return ex.tryConcretize(res)
}

// indexSub models strings.Index / LastIndex with naive search semantics.
func (ex *Exec) indexSub(s, sub View, last bool) *T {
	c := ex.c
	n := ex.maxLen(s)
	m := ex.maxLen(sub)
	if n < 0 || m < 0 || n > maxUnroll || m > 64 {
		panic(unsupported{"Index over unbounded strings"})
	}
	matchAt := func(i int64) *T {
		it := ex.intConst(i)
		conj := []*T{c.Sle(c.Add(it, sub.Len), s.Len)}
		for j := int64(0); j < m; j++ {
			jt := ex.intConst(j)
			conj = append(conj, c.Or(c.Sle(sub.Len, jt), c.Eq(ex.viewRead(s, ex.intConst(i+j)), ex.viewRead(sub, jt))))
		}
		return c.And(conj...)
	}
	res := ex.intConst(-1)
	if !last {
		for i := n; i >= 0; i-- {
			res = c.Ite(matchAt(i), ex.intConst(i), res)
		}
	} else {
		for i := int64(0); i <= n; i++ {
			res = c.Ite(matchAt(i), ex.intConst(i), res)
		}
	}
	return res
}

// sprintf models fmt.Sprintf for formats made of literal text and the verbs
// %d, %0Nd, %s, %v (strings and non-negative integers). Anything else is opaque.
func (ex *Exec) sprintf(args []Value) (Value, bool) {
	fv, ok := args[0].(View)
	if !ok {
		return nil, false
	}
	if _, isC := fv.Len.ConstS(); !isC {
		return nil, false
	}
	format := ex.viewString(fv)
	if strings.Contains(format, "?") {
		return nil, false
	}
	rest, _ := args[1].(SliceV)
	out := ex.emptyView()
	ai := 0
	var pieces []piece
	shaped := true
	lit := func(s string) {
		if s != "" {
			out = ex.concat(out, ex.constString(s))
			pieces = append(pieces, piece{lit: s})
		}
	}
	i := 0
	for i < len(format) {
		j := strings.IndexByte(format[i:], '%')
		if j < 0 {
			lit(format[i:])
			break
		}
		lit(format[i : i+j])
		i += j + 1
		if i >= len(format) {
			return nil, false
		}
		if format[i] == '%' {
			lit("%")
			i++
			continue
		}
		width := 0
		zero := false
		if format[i] == '0' {
			zero = true
			i++
		}
		for i < len(format) && format[i] >= '0' && format[i] <= '9' {
			width = width*10 + int(format[i]-'0')
			i++
		}
		if i >= len(format) || ai >= len(rest.A) {
			return nil, false
		}
		verb := format[i]
		i++
		arg := rest.A[ai]
		ai++
		if iv, isI := arg.(Iface); isI {
			arg = iv.V
		}
		switch a := arg.(type) {
		case View:
			if (verb != 's' && verb != 'v') || width != 0 {
				return nil, false
			}
			out = ex.concat(out, a)
			if _, isC := a.Len.ConstS(); isC && !strings.Contains(ex.viewString(a), "?") {
				pieces = append(pieces, piece{lit: ex.viewString(a)})
			} else {
				shaped = false
			}
		case *T:
			if (verb != 'd' && verb != 'v') || a.s.K != KBV {
				return nil, false
			}
			v64 := a
			if a.s.W < 64 {
				v64 = ex.c.SExt(a, 64) // signedness unknown here: callers pass non-negative values
			}
			if k, isC := v64.ConstS(); isC {
				if zero && width > 0 {
					lit(fmt.Sprintf("%0*d", width, k))
				} else {
					lit(fmt.Sprintf("%*d", width, k))
				}
				continue
			}
			if !zero || width == 0 || width > 19 {
				return nil, false
			}
			// symbolic value, fixed width with zero padding: digits by division; the
			// value is required to be non-negative and to fit the width
			c := ex.c
			pow := uint64(1)
			for d := 0; d < width && d < 19; d++ {
				pow *= 10
			}
			ex.oblige(c.Sle(ex.intConst(0), v64), "sprintf-model", "engine model of Sprintf: value must be non-negative")
			if width < 19 {
				ex.oblige(c.Slt(v64, c.Const(64, pow)), "sprintf-model", "engine model of Sprintf: value must fit the zero-padded width")
			}
			// relational encoding: fresh digit variables d_i in 0..9 with sum d_i*10^i = value
			// (the digits are uniquely determined, so this is a definitional extension)
			cells := make([]*T, width)
			p := uint64(1)
			sum := c.Const(64, 0)
			ex.nextOpaque++
			for d := width - 1; d >= 0; d-- {
				dv := c.Var(fmt.Sprintf("dig%d_%d", ex.nextOpaque, d), BV(64))
				ex.addPC(c.And(c.Sle(ex.intConst(0), dv), c.Sle(dv, ex.intConst(9))))
				sum = c.Add(sum, c.Mul(dv, c.Const(64, p)))
				cells[d] = c.Add(c.Extract(dv, 7, 0), c.Const(8, '0'))
				p *= 10
			}
			ex.addPC(c.Eq(sum, v64))
			if ex.ev != nil {
				// extend the witness model with the digits of the value it assigns
				val := ex.ev.Eval(v64)
				for d := width - 1; d >= 0; d-- {
					ex.model.Vars[fmt.Sprintf("dig%d_%d", ex.nextOpaque, d)] = val % 10
					val /= 10
				}
				ex.setModel(ex.model)
			}
			o := ex.newByteObj(ex.intConst(int64(width)), int64(width), &layer{kind: lCells, cells: cells}, "sprintf")
			n := ex.intConst(int64(width))
			out = ex.concat(out, View{O: o, Off: ex.intConst(0), Len: n, Cap: n})
			pieces = append(pieces, piece{num: v64, width: width})
		default:
			return nil, false
		}
	}
	if ai != len(rest.A) {
		return nil, false
	}
	if shaped && out.O != nil && len(pieces) > 0 {
		// a fresh immutable object carrying its structure, so that comparisons of
		// two such strings can be decided on the numbers (fixed-width zero-padded
		// decimal rendering is injective and order-preserving)
		no := ex.cloneRange(out.O, out.Off, out.Len, ex.maxLen(out), "sprintf")
		no.pieces = pieces
		no.readonly = true
		z := ex.intConst(0)
		out = View{O: no, Off: z, Len: out.Len, Cap: out.Len}
	}
	return out, true
}

// shapedCompare compares two whole strings produced by the Sprintf model with
// the same structure piece by piece; ok=false when it does not apply.
func (ex *Exec) shapedCompare(a, b View) (*T, bool) {
	if a.O == nil || b.O == nil || a.O.pieces == nil || b.O.pieces == nil || len(a.O.pieces) != len(b.O.pieces) {
		return nil, false
	}
	if !(a.Off.IsConst() && a.Off.c == 0 && b.Off.IsConst() && b.Off.c == 0 && a.Len == a.O.size && b.Len == b.O.size) {
		return nil, false
	}
	c := ex.c
	res := ex.intConst(0)
	for i := len(a.O.pieces) - 1; i >= 0; i-- {
		pa, pb := a.O.pieces[i], b.O.pieces[i]
		if (pa.num == nil) != (pb.num == nil) || pa.width != pb.width {
			return nil, false
		}
		if pa.num == nil {
			if len(pa.lit) != len(pb.lit) {
				return nil, false
			}
			if pa.lit < pb.lit {
				res = ex.intConst(-1)
			} else if pa.lit > pb.lit {
				res = ex.intConst(1)
			}
			continue
		}
		res = c.Ite(c.Ult(pa.num, pb.num), ex.intConst(-1), c.Ite(c.Ult(pb.num, pa.num), ex.intConst(1), res))
	}
	return res, true
}
