package main

// The symbolic interpreter for go/ssa.

import (
	"fmt"
	"go/constant"
	"go/token"
	"go/types"
	"os"
	"strings"

	"golang.org/x/tools/go/ssa"
)

type fnInfo struct {
	index map[ssa.Value]int
	n     int
}

type deferred struct {
	fn    Value
	args  []Value
	instr *ssa.Defer
}

type frame struct {
	ex        *Exec
	g         *Goroutine
	fn        *ssa.Function
	caller    *frame
	info      *fnInfo
	env       []Value
	block     *ssa.BasicBlock
	prev      *ssa.BasicBlock
	defers    []*deferred
	result    Value
	panicking bool
	panicVal  *goPanic
	recovered bool
	symIf     map[*ssa.If]int
	curInstr  ssa.Instruction
	skipPhis  int
}

type Violation struct {
	Kind    string
	Label   string
	Site    string
	Model   *Model
	Trace   []string
	Harness string
	Inputs  map[string]interface{}
}

// Exec holds the state of one path execution.
type Exec struct {
	prog    *ssa.Program
	w       *Worker
	c       *Ctx
	solver  *Solver
	h       *Harness
	fnInfos map[*ssa.Function]*fnInfo

	globals   map[*ssa.Global]*Value
	initDone  map[*ssa.Package]bool
	initMode  int
	initStack []*ssa.Package

	pc      []*T
	pcSet   map[int]bool
	model   *Model
	ev      *Evaluator
	tainted bool // an unknown solver answer was used on this path

	prefix []int16
	pos    int
	log    []int16
	forks  []*WorkItem

	nextObj  int
	steps    int
	symNames map[string]int
	unwind   int
	maxSteps int

	curFrame *frame
	gs       []*Goroutine
	curG     *Goroutine
	sched    *Scheduler

	pools    map[*Value][]Value
	poolND   bool
	locks    map[*Value]*lockState
	strObjs  map[string]*ByteObj
	observed []Observation
	inputs   []InputRec

	nextOpaque  int
	nowCount    int
	lastNow     *T
	timeOrigin  map[*T]*T     // nsec term of a time.Time built by timeFromUnixNano -> its unix-nanosecond term
	noIntr      *ssa.Function // the next call of this function bypasses its intrinsic (fallback to the real body)
	approx      []string
	timerOf     map[*Value]*Timer
	vecs        map[*Value]*vecState
	guard       *T
	speculating bool
	noMerge     bool
	asserts     map[string]int

	res *PathResult
}

type Observation struct {
	Label string
	Val   Value
}

// InputRec records one symbolic input created by the harness, so that a model
// can be turned into concrete replay values.
type InputRec struct {
	Name  string
	Kind  string // byte,bool,int,bytes,string,bigbytes
	Term  *T     // scalar term, or length term
	Cells []*T   // bytes content
	UF    string
	Max   int64
}

type PathResult struct {
	Status      string // ok, infeasible, unsupported, unwind, budget, panic
	Why         string
	Reached     []string
	Violations  []*Violation
	Obligations int
	Discharged  int
	Unknown     []string
	Steps       int
	Decisions   int
	Funcs       map[string]bool
	Witness     *Model
	Inputs      []InputRec
	Observed    []Observation
	Log         []int16
	Asserts     map[string]int
}

func (ex *Exec) info(fn *ssa.Function) *fnInfo {
	if fi, ok := ex.fnInfos[fn]; ok {
		return fi
	}
	fi := &fnInfo{index: map[ssa.Value]int{}}
	add := func(v ssa.Value) {
		fi.index[v] = fi.n
		fi.n++
	}
	for _, p := range fn.Params {
		add(p)
	}
	for _, fv := range fn.FreeVars {
		add(fv)
	}
	for _, b := range fn.Blocks {
		for _, in := range b.Instrs {
			if v, ok := in.(ssa.Value); ok {
				add(v)
			}
		}
	}
	ex.fnInfos[fn] = fi
	return fi
}

func (fr *frame) set(v ssa.Value, x Value) { fr.env[fr.info.index[v]] = x }

func (fr *frame) get(v ssa.Value) Value {
	switch v := v.(type) {
	case *ssa.Const:
		return fr.ex.constValue(v)
	case *ssa.Global:
		return fr.ex.globalAddr(v)
	case *ssa.Function:
		return v
	case *ssa.Builtin:
		return v
	}
	if i, ok := fr.info.index[v]; ok {
		return fr.env[i]
	}
	panic(fmt.Sprintf("get: no value for %T %v in %s", v, v.Name(), fr.fn))
}

func (fr *frame) getT(v ssa.Value) *T {
	x := fr.get(v)
	t, ok := x.(*T)
	if !ok {
		panic(unsupported{fmt.Sprintf("expected scalar, got %T for %s in %s", x, v.Name(), fr.fn)})
	}
	return t
}

func (ex *Exec) constValue(cst *ssa.Const) Value {
	t := cst.Type()
	if cst.Value == nil {
		return ex.zero(t)
	}
	switch u := t.Underlying().(type) {
	case *types.Basic:
		if u.Info()&types.IsBoolean != 0 {
			return ex.c.Bool(constant.BoolVal(cst.Value))
		}
		if w, signed, ok := intInfo(u); ok {
			if signed {
				return ex.c.ConstS(w, cst.Int64())
			}
			return ex.c.Const(w, cst.Uint64())
		}
		if isFloat(u) {
			return ex.c.FConst(cst.Float64())
		}
		if u.Info()&types.IsString != 0 {
			s := constant.StringVal(cst.Value)
			return ex.constString(s)
		}
	}
	panic(unsupported{fmt.Sprintf("constant of type %v", t)})
}

func (ex *Exec) constString(s string) View {
	if s == "" {
		return ex.emptyView()
	}
	o, ok := ex.strObjs[s]
	if !ok {
		o = ex.constBytesObj([]byte(s))
		ex.strObjs[s] = o
	}
	n := ex.intConst(int64(len(s)))
	return View{O: o, Off: ex.intConst(0), Len: n, Cap: n}
}

// ---------- globals and package initialisation ----------

func (ex *Exec) globalAddr(g *ssa.Global) *Value {
	if p, ok := ex.globals[g]; ok {
		return p
	}
	ex.ensureInit(g.Pkg)
	if p, ok := ex.globals[g]; ok {
		return p
	}
	p := new(Value)
	*p = ex.zero(g.Type().(*types.Pointer).Elem())
	ex.globals[g] = p
	return p
}

func (ex *Exec) ensureInit(pkg *ssa.Package) {
	if pkg == nil || ex.initDone[pkg] {
		return
	}
	ex.initDone[pkg] = true
	// allocate all globals first
	for _, m := range pkg.Members {
		if g, ok := m.(*ssa.Global); ok {
			if _, ok := ex.globals[g]; !ok {
				p := new(Value)
				func() {
					defer func() {
						if r := recover(); r != nil {
							if _, ok := r.(unsupported); ok {
								*p = Poison{"zero value unsupported"}
								return
							}
							panic(r)
						}
					}()
					*p = ex.zero(g.Type().(*types.Pointer).Elem())
				}()
				ex.globals[g] = p
			}
		}
	}
	initFn := pkg.Func("init")
	if initFn == nil || initFn.Blocks == nil {
		return
	}
	if ex.w.opts.skipInit(pkg.Pkg.Path()) {
		ex.poisonPackage(pkg, initFn)
		return
	}
	ex.initMode++
	ex.initStack = append(ex.initStack, pkg)
	saveFrame := ex.curFrame
	func() {
		defer func() {
			ex.initMode--
			ex.initStack = ex.initStack[:len(ex.initStack)-1]
			ex.curFrame = saveFrame
			if r := recover(); r != nil {
				switch r := r.(type) {
				case unsupported:
					if ex.w.opts.verbose {
						fmt.Fprintf(os.Stderr, "init of %s incomplete: %s\n", pkg.Pkg.Path(), r.why)
					}
					ex.poisonPackage(pkg, initFn)
				case *goPanic:
					ex.poisonPackage(pkg, initFn)
				default:
					panic(r)
				}
			}
		}()
		ex.callFn(nil, initFn, nil, nil)
	}()
}

// Poison marks a value that could not be computed during package
// initialisation. Using it makes the path inconclusive.
type Poison struct{ why string }

func (ex *Exec) poisonPackage(pkg *ssa.Package, initFn *ssa.Function) {
	// every global referenced by init that still holds a zero value may be uninitialised
	refd := map[*ssa.Global]bool{}
	var visit func(fn *ssa.Function)
	seen := map[*ssa.Function]bool{}
	visit = func(fn *ssa.Function) {
		if seen[fn] {
			return
		}
		seen[fn] = true
		for _, b := range fn.Blocks {
			for _, in := range b.Instrs {
				for _, op := range in.Operands(nil) {
					if g, ok := (*op).(*ssa.Global); ok && g.Pkg == pkg {
						refd[g] = true
					}
				}
			}
		}
	}
	visit(initFn)
	for g := range refd {
		if g.Name() == "init$guard" {
			continue
		}
		p := ex.globals[g]
		if p != nil && ex.isZeroish(*p) {
			*p = Poison{"package init incomplete: " + pkg.Pkg.Path() + "." + g.Name()}
		}
	}
}

func (ex *Exec) isZeroish(v Value) bool {
	switch x := v.(type) {
	case *T:
		return x.IsConst() && x.c == 0
	case *Value:
		return x == nil
	case View:
		return x.O == nil
	case SliceV:
		return x.A == nil
	case *MapV:
		return x == nil
	case Iface:
		return x.T == nil
	case nil:
		return true
	case Struct:
		for _, f := range x {
			if !ex.isZeroish(f) {
				return false
			}
		}
		return true
	}
	return false
}

// ---------- path condition, decisions, obligations ----------

func (ex *Exec) addPC(t *T) {
	if t.IsTrue() || ex.pcSet[t.id] {
		return
	}
	if t.op == OAnd {
		for _, a := range t.a {
			ex.addPC(a)
		}
		return
	}
	ex.pc = append(ex.pc, t)
	ex.pcSet[t.id] = true
	ex.learnBound(t)
}

// learnBound records unsigned bounds of variables from conjuncts of the form
// k <= v, v <= k, v < k (signed or unsigned, with non-negative k).
func (ex *Exec) learnBound(t *T) {
	c := ex.c
	upd := func(v *T, lo, hi uint64, hasLo, hasHi bool) {
		if v.op != OVar || v.s.K != KBV {
			return
		}
		b, ok := c.varBounds[v.name]
		if !ok {
			b = [2]uint64{0, mask(v.s.W)}
		}
		if hasLo && lo > b[0] {
			b[0] = lo
		}
		if hasHi && hi < b[1] {
			b[1] = hi
		}
		c.varBounds[v.name] = b
	}
	half := func(w int) uint64 { return mask(w) >> 1 }
	switch t.op {
	case OSle, OUle, OSlt, OUlt:
		x, y := t.a[0], t.a[1]
		strict := t.op == OSlt || t.op == OUlt
		signed := t.op == OSle || t.op == OSlt
		if x.op == OConst && y.op == OVar {
			if signed && x.c > half(x.s.W) {
				return // negative lower bound says nothing about the unsigned value
			}
			lo := x.c
			if strict {
				lo++
			}
			// signed: v >= k >= 0 also means v is non-negative, i.e. v <= 2^(w-1)-1
			upd(y, lo, half(y.s.W), true, signed)
		}
		if y.op == OConst && x.op == OVar {
			if signed && y.c > half(y.s.W) {
				return
			}
			hi := y.c
			if strict {
				if hi == 0 {
					return
				}
				hi--
			}
			if signed {
				// v <=s k with k >= 0 does not bound the unsigned value unless v is known non-negative
				b, ok := c.varBounds[x.name]
				if !ok || b[1] > half(x.s.W) {
					return
				}
			}
			upd(x, 0, hi, false, true)
		}
	}
}

func (ex *Exec) setModel(m *Model) {
	ex.model = m
	if m != nil {
		ex.ev = NewEvaluator(m)
	} else {
		ex.ev = nil
	}
}

func (ex *Exec) replaying() bool { return ex.pos < len(ex.prefix) }

func (ex *Exec) logEvent(v int16) {
	ex.log = append(ex.log, v)
	ex.pos++
}

// branch decides a symbolic condition, forking when both sides are feasible.
func (ex *Exec) branch(cond *T) bool {
	if cond.IsConst() {
		return cond.c == 1
	}
	c := ex.c
	if ex.pcSet[cond.id] {
		return true
	}
	if n := c.Not(cond); ex.pcSet[n.id] {
		return false
	}
	if ex.initMode > 0 {
		panic(unsupported{"symbolic branch during package init"})
	}
	if ex.speculating {
		panic(specAbort{"fork inside speculative region"})
	}
	ex.res.Decisions++
	if ex.replaying() {
		d := ex.prefix[ex.pos]
		ex.logEvent(d)
		if d == 1 {
			ex.addPC(cond)
		} else {
			ex.addPC(c.Not(cond))
		}
		if !ex.replaying() {
			ex.setModel(ex.w.curItem.Model)
		}
		return d == 1
	}
	var side bool
	haveSide := false
	if ex.ev != nil {
		side = ex.ev.Bool(cond)
		haveSide = true
	}
	if !haveSide {
		// no witness model: ask for the true side first
		r, m := ex.solver.Check(ex.pc, cond, true, nil)
		switch r {
		case Sat:
			side = true
			ex.setModel(m)
		case Unsat:
			side = false
			// false side must be feasible if the pc is; get a model lazily
			r2, m2 := ex.solver.Check(ex.pc, c.Not(cond), true, nil)
			if r2 == Unsat {
				panic(pathEnd{"path condition infeasible"})
			}
			if r2 == Sat {
				ex.setModel(m2)
			} else {
				ex.tainted = true
			}
			ex.logEvent(0)
			ex.addPC(c.Not(cond))
			return false
		default:
			ex.tainted = true
			side = true
		}
	}
	other := cond
	if side {
		other = c.Not(cond)
	}
	ex.solver.Where = "branch@" + ex.site()
	r, m := ex.solver.Check(ex.pc, other, true, ex.model)
	if r == Sat || r == Unknown {
		if r == Unknown {
			ex.res.Unknown = append(ex.res.Unknown, "branch feasibility at "+ex.site())
		}
		np := make([]int16, len(ex.log)+1)
		copy(np, ex.log)
		if side {
			np[len(ex.log)] = 0
		} else {
			np[len(ex.log)] = 1
		}
		ex.forks = append(ex.forks, &WorkItem{Prefix: np, Model: m, Tainted: r == Unknown})
	}
	if side {
		ex.logEvent(1)
		ex.addPC(cond)
	} else {
		ex.logEvent(0)
		ex.addPC(c.Not(cond))
	}
	return side
}

// choose picks one of n alternatives (all assumed feasible), forking for the rest.
func (ex *Exec) choose(n int) int {
	if n <= 1 {
		return 0
	}
	if ex.initMode > 0 {
		return 0
	}
	if ex.speculating {
		panic(specAbort{"choice inside speculative region"})
	}
	ex.res.Decisions++
	if ex.replaying() {
		d := ex.prefix[ex.pos]
		ex.logEvent(d)
		if !ex.replaying() {
			ex.setModel(ex.w.curItem.Model)
		}
		return int(d)
	}
	for k := 1; k < n; k++ {
		np := make([]int16, len(ex.log)+1)
		copy(np, ex.log)
		np[len(ex.log)] = int16(k)
		ex.forks = append(ex.forks, &WorkItem{Prefix: np, Model: ex.model.clone()})
	}
	ex.logEvent(0)
	return 0
}

func (ex *Exec) site() string {
	fr := ex.curFrame
	if fr == nil {
		return "?"
	}
	// innermost frame that belongs to the repository (not harness helper, not stdlib)
	name := fr.fn.String()
	pos := token.NoPos
	if fr.curInstr != nil {
		pos = fr.curInstr.Pos()
	}
	_ = pos
	return name
}

func (ex *Exec) trace() []string {
	var out []string
	for fr := ex.curFrame; fr != nil && len(out) < 12; fr = fr.caller {
		s := fr.fn.String()
		if fr.curInstr != nil && fr.curInstr.Pos() != token.NoPos {
			p := ex.prog.Fset.Position(fr.curInstr.Pos())
			s += fmt.Sprintf(" (%s:%d)", shortPath(p.Filename), p.Line)
		}
		out = append(out, s)
	}
	return out
}

func shortPath(p string) string {
	if i := strings.Index(p, "/repo/"); i >= 0 {
		return p[i+6:]
	}
	if i := strings.LastIndex(p, "/src/"); i >= 0 {
		return p[i+5:]
	}
	return p
}

func (ex *Exec) violation(kind, label string) {
	ex.violationAt(kind, label, ex.model)
}

func (ex *Exec) violationAt(kind, label string, m *Model) {
	v := &Violation{Kind: kind, Label: label, Site: ex.siteForViolation(), Model: m.clone(), Trace: ex.trace(), Harness: ex.h.Name}
	if ex.sched != nil && len(ex.sched.events) > 0 {
		ev := ex.sched.events
		if len(ev) > 60 {
			ev = ev[len(ev)-60:]
		}
		v.Trace = append(append([]string{}, v.Trace...), "--- schedule ---")
		v.Trace = append(v.Trace, ev...)
	}
	ex.res.Violations = append(ex.res.Violations, v)
}

// siteForViolation: the innermost frame outside stdlib.
func (ex *Exec) siteForViolation() string {
	for fr := ex.curFrame; fr != nil; fr = fr.caller {
		if fr.fn.Pkg != nil && strings.Contains(fr.fn.Pkg.Pkg.Path(), ".") {
			return fr.fn.String()
		}
		if fr.fn.Pkg == nil && fr.fn.Parent() != nil {
			continue
		}
	}
	if ex.curFrame != nil {
		return ex.curFrame.fn.String()
	}
	return "?"
}

// fail records an unconditional violation on the current path and ends it.
func (ex *Exec) fail(kind, label string) {
	if ex.speculating {
		panic(specAbort{"failure inside speculative region"})
	}
	if ex.initMode > 0 {
		panic(unsupported{"failure during init: " + label})
	}
	if ex.replaying() {
		panic(pathEnd{"failure inside replayed prefix: " + label})
	}
	ex.ensureModel()
	ex.res.Obligations++
	ex.violation(kind, label)
	panic(pathEnd{"violation: " + label})
}

func (ex *Exec) ensureModel() {
	if ex.model != nil {
		return
	}
	r, m := ex.solver.Check(ex.pc, nil, true, nil)
	switch r {
	case Sat:
		ex.setModel(m)
	case Unsat:
		panic(pathEnd{"path condition infeasible"})
	default:
		ex.tainted = true
	}
}

// oblige checks that ob holds on every input reaching this point.
func (ex *Exec) oblige(ob *T, kind, label string) {
	if ob.IsTrue() {
		return
	}
	c := ex.c
	if ex.guard != nil && ob.op != OAnd {
		ob = c.Or(c.Not(ex.guard), ob)
		if ob.IsTrue() {
			return
		}
		if ob.op == OAnd {
			// do not split a guarded obligation again
			ex.obligeOne(ob, kind, label)
			return
		}
	}
	if ob.op == OAnd {
		for _, a := range ob.a {
			ex.oblige(a, kind, label)
		}
		return
	}
	ex.obligeOne(ob, kind, label)
}

func (ex *Exec) obligeOne(ob *T, kind, label string) {
	c := ex.c
	if ob.IsTrue() || ex.pcSet[ob.id] {
		return
	}
	if ex.initMode > 0 {
		if ob.IsFalse() {
			panic(unsupported{"obligation fails during init: " + label})
		}
		panic(unsupported{"symbolic obligation during init"})
	}
	ex.res.Obligations++
	if ex.replaying() {
		d := ex.prefix[ex.pos]
		ex.logEvent(d)
		if d == 1 {
			ex.addPC(ob)
		}
		if !ex.replaying() {
			ex.setModel(ex.w.curItem.Model)
		}
		return
	}
	violated := false
	var vm *Model
	if ob.IsFalse() {
		ex.ensureModel()
		violated, vm = true, ex.model
	} else if ex.ev != nil && !ex.ev.Bool(ob) {
		violated, vm = true, ex.model
	} else {
		ex.solver.Where = kind + ":" + label + "@" + ex.site()
		r, m := ex.solver.Check(ex.pc, c.Not(ob), true, ex.model)
		switch r {
		case Unsat:
			ex.res.Discharged++
			ex.logEvent(0)
			return
		case Sat:
			violated, vm = true, m
		default:
			ex.res.Unknown = append(ex.res.Unknown, kind+": "+label+" at "+ex.site())
			ex.logEvent(0)
			return
		}
	}
	if violated {
		ex.violationAt(kind, label, vm)
		// continue under the assumption that the obligation holds
		ex.logEvent(1)
		if ob.IsFalse() {
			panic(pathEnd{"violation: " + label})
		}
		pcBefore := ex.pc
		wit := ex.model
		ex.addPC(ob)
		if ex.ev == nil || !ex.ev.Bool(ob) {
			r, m := ex.solver.Check(pcBefore, ob, true, wit)
			switch r {
			case Sat:
				ex.setModel(m)
			case Unsat:
				panic(pathEnd{"no input satisfies the obligation here"})
			default:
				ex.setModel(nil)
				ex.tainted = true
			}
		}
	}
}

// assume restricts the path to inputs satisfying cond.
func (ex *Exec) assume(cond *T) {
	if cond.IsTrue() {
		return
	}
	if cond.IsFalse() {
		panic(pathEnd{"assumption false"})
	}
	if ex.replaying() {
		// the assumption was feasible when the parent passed here
		ex.addPC(cond)
		return
	}
	pcBefore := ex.pc
	wit := ex.model
	ex.addPC(cond)
	if ex.ev != nil && ex.ev.Bool(cond) {
		return
	}
	r, m := ex.solver.Check(pcBefore, cond, true, wit)
	switch r {
	case Sat:
		ex.setModel(m)
	case Unsat:
		panic(pathEnd{"assumption infeasible"})
	default:
		ex.setModel(nil)
		ex.tainted = true
		ex.res.Unknown = append(ex.res.Unknown, "assumption feasibility at "+ex.site())
	}
}

// tryConcretize returns a constant when the path condition forces t to a single value.
func (ex *Exec) tryConcretize(t *T) *T {
	if t.IsConst() || ex.initMode > 0 || ex.speculating {
		return t
	}
	if !ex.replaying() && ex.ev == nil {
		ex.logEvent(0)
		return t
	}
	c := ex.c
	if ex.replaying() {
		d := ex.prefix[ex.pos]
		ex.logEvent(d)
		if !ex.replaying() {
			ex.setModel(ex.w.curItem.Model)
		}
		if d == 0 {
			return t
		}
		// the unique value was recorded in the following two log entries (hi, lo 15-bit halves + sign)
		v := ex.readLoggedValue()
		k := c.ConstS(t.s.W, v)
		ex.addPC(c.Eq(t, k))
		return k
	}
	v := ex.ev.Eval(t)
	k := c.Const(t.s.W, v)
	ex.solver.Where = "concretize@" + ex.site()
	r, _ := ex.solver.Check(ex.pc, c.Ne(t, k), false, ex.model)
	if r != Unsat {
		ex.logEvent(0)
		return t
	}
	ex.logEvent(1)
	ex.writeLoggedValue(sext(v, t.s.W))
	ex.addPC(c.Eq(t, k))
	return k
}

// values are stored in the decision log as five 13-bit chunks (sign-extended 64-bit)
func (ex *Exec) writeLoggedValue(v int64) {
	u := uint64(v)
	for i := 0; i < 5; i++ {
		ex.logEvent(int16((u >> (13 * uint(i))) & 0x1fff))
	}
}

func (ex *Exec) readLoggedValue() int64 {
	var u uint64
	for i := 0; i < 5; i++ {
		d := ex.prefix[ex.pos]
		ex.logEvent(d)
		u |= uint64(d) << (13 * uint(i))
	}
	if !ex.replaying() {
		ex.setModel(ex.w.curItem.Model)
	}
	// sign-extend from 65 bits is not needed: 5*13 = 65 >= 64
	return int64(u)
}

// concretize forks over the values of t in [lo, hi].
func (ex *Exec) concretize(t *T, lo, hi int64) int64 {
	if k, ok := t.ConstS(); ok {
		return k
	}
	if hi-lo > 4096 {
		panic(unsupported{"concretize over a large range"})
	}
	for k := lo; k < hi; k++ {
		if ex.branch(ex.c.Eq(t, ex.c.ConstS(t.s.W, k))) {
			return k
		}
	}
	ex.addPC(ex.c.Eq(t, ex.c.ConstS(t.s.W, hi)))
	return hi
}

// ---------- calls ----------

func (ex *Exec) call(fr *frame, fn Value, args []Value) Value {
	switch f := fn.(type) {
	case *ssa.Function:
		if f == nil {
			ex.goPanicNow("call of nil function")
		}
		return ex.callFn(fr, f, args, nil)
	case *Closure:
		if f == nil {
			ex.goPanicNow("call of nil function")
		}
		return ex.callFn(fr, f.Fn, args, f.Env)
	case *ssa.Builtin:
		return ex.callBuiltin(fr, f, args)
	case nil:
		ex.fail("nil-deref", "call of nil function value")
	case Poison:
		panic(unsupported{f.why})
	}
	panic(unsupported{fmt.Sprintf("cannot call %T", fn)})
}

func (ex *Exec) goPanicNow(msg string) {
	panic(&goPanic{val: Iface{T: types.Typ[types.String], V: ex.constString(msg)}, site: ex.siteForViolation(), msg: msg, trace: ex.trace()})
}

func fnKey(fn *ssa.Function) string {
	if o := fn.Origin(); o != nil {
		return o.String()
	}
	return fn.String()
}

func (ex *Exec) callFn(caller *frame, fn *ssa.Function, args []Value, env []Value) Value {
	if ex.initMode == 0 && ex.res != nil {
		ex.res.Funcs[fn.String()] = true
	}
	if caller == nil {
		caller = ex.curFrame
	}
	if ex.initMode > 0 && fn.Name() == "init" && fn.Pkg != nil && fn.Parent() == nil && fn.Signature.Recv() == nil && fn.Pkg.Func("init") == fn && len(ex.initStack) > 0 && ex.initStack[len(ex.initStack)-1] != fn.Pkg {
		// dependencies are initialised lazily, on first use of one of their globals
		return nil
	}
	if stub, ok := ex.h.Stubs[fnKey(fn)]; ok {
		return ex.call(caller, stub, args)
	}
	if ex.noIntr == fn {
		ex.noIntr = nil
	} else if intr := lookupIntrinsic(ex, fn); intr != nil {
		return intr(ex, caller, fn, args)
	}
	if fn.Blocks == nil {
		panic(unsupported{"no code for function " + fn.String()})
	}
	if fn.TypeParams().Len() > 0 && len(fn.TypeArgs()) == 0 {
		panic(unsupported{"uninstantiated generic " + fn.String()})
	}
	if ex.sched != nil && ex.h.PreemptCalls != "" && ex.sched.preemptions < ex.sched.maxPreempt {
		pkg := fn.Pkg
		if pkg == nil && fn.Origin() != nil {
			pkg = fn.Origin().Pkg
		}
		if pkg == nil && fn.Parent() != nil {
			pkg = fn.Parent().Pkg
		}
		if pkg != nil && strings.HasPrefix(pkg.Pkg.Path(), ex.h.PreemptCalls) && !strings.Contains(pkg.Pkg.Path(), "/zz_verif/") &&
			!strings.HasPrefix(fn.Name(), "verif") && !strings.HasPrefix(fn.Name(), "Verif") {
			ex.yield("call " + fn.Name())
		}
	}
	fi := ex.info(fn)
	fr := &frame{ex: ex, fn: fn, caller: caller, info: fi, env: make([]Value, fi.n)}
	if caller != nil {
		fr.g = caller.g
	} else {
		fr.g = ex.curG
	}
	for i, p := range fn.Params {
		fr.env[fi.index[p]] = args[i]
	}
	for i, fv := range fn.FreeVars {
		fr.env[fi.index[fv]] = env[i]
	}
	for _, l := range fn.Locals {
		p := new(Value)
		*p = ex.zero(l.Type().(*types.Pointer).Elem())
		fr.env[fi.index[l]] = p
	}
	fr.block = fn.Blocks[0]
	save := ex.curFrame
	ex.curFrame = fr
	depth := 0
	for f := fr; f != nil; f = f.caller {
		depth++
		if depth > 400 {
			panic(unsupported{"call depth exceeded"})
		}
	}
	for fr.block != nil {
		ex.runFrame(fr)
	}
	ex.curFrame = save
	return fr.result
}

// runFrame executes instructions until return or until a panic propagates.
func (ex *Exec) runFrame(fr *frame) {
	defer func() {
		if fr.block == nil {
			return // normal return
		}
		r := recover()
		if r == nil {
			return
		}
		gp, ok := r.(*goPanic)
		if !ok {
			panic(r) // control panic of the engine
		}
		fr.panicking = true
		fr.panicVal = gp
		ex.curFrame = fr
		ex.runDefers(fr)
		// recovered: resume at the recover block
		fr.skipPhis = 0
		if fr.fn.Recover != nil {
			fr.block = fr.fn.Recover
		} else {
			fr.block = nil
			fr.result = ex.zeroResults(fr.fn)
		}
	}()
	for {
		for _, instr := range fr.block.Instrs[fr.skipPhis:] {
			ex.steps++
			if ex.steps > ex.maxSteps {
				panic(budgetExceeded{"step budget"})
			}
			fr.curInstr = instr
			var k continuation
			if ex.initMode > 0 {
				k = ex.visitTolerant(fr, instr)
			} else {
				k = ex.visit(fr, instr)
			}
			switch k {
			case kReturn:
				return
			case kJump:
				goto next
			}
		}
		panic("block without terminator")
	next:
	}
}

type budgetExceeded struct{ why string }

func (ex *Exec) zeroResults(fn *ssa.Function) Value {
	res := fn.Signature.Results()
	switch res.Len() {
	case 0:
		return nil
	case 1:
		return ex.zero(res.At(0).Type())
	}
	return ex.zero(res)
}

func (ex *Exec) runDefers(fr *frame) {
	for len(fr.defers) > 0 {
		d := fr.defers[len(fr.defers)-1]
		fr.defers = fr.defers[:len(fr.defers)-1]
		ex.runDefer(fr, d)
	}
	if fr.panicking {
		panic(fr.panicVal)
	}
}

func (ex *Exec) runDefer(fr *frame, d *deferred) {
	var ok bool
	defer func() {
		if !ok {
			r := recover()
			if gp, isGP := r.(*goPanic); isGP {
				// deferred call panicked: replaces the current panic
				fr.panicking = true
				fr.panicVal = gp
				return
			}
			panic(r)
		}
	}()
	ex.curFrame = fr
	ex.call(fr, d.fn, d.args)
	ok = true
}

type continuation int

const (
	kNext continuation = iota
	kReturn
	kJump
)

func (ex *Exec) prepareCall(fr *frame, cc *ssa.CallCommon) (Value, []Value) {
	v := fr.get(cc.Value)
	var fn Value
	var args []Value
	if cc.Method == nil {
		fn = v
	} else {
		if p, isP := v.(Poison); isP {
			panic(unsupported{p.why})
		}
		recv, ok := v.(Iface)
		if !ok {
			panic(unsupported{fmt.Sprintf("invoke on %T", v)})
		}
		if recv.T == nil {
			ex.fail("nil-deref", "method "+cc.Method.Name()+" invoked on nil interface")
		}
		f := ex.prog.LookupMethod(recv.T, cc.Method.Pkg(), cc.Method.Name())
		if f == nil {
			panic(unsupported{fmt.Sprintf("no method %s on %v", cc.Method.Name(), recv.T)})
		}
		fn = f
		args = append(args, recv.V)
	}
	for _, a := range cc.Args {
		args = append(args, fr.get(a))
	}
	return fn, args
}

func deref(t types.Type) types.Type {
	if p, ok := t.Underlying().(*types.Pointer); ok {
		return p.Elem()
	}
	return t
}

func (ex *Exec) visit(fr *frame, instr ssa.Instruction) continuation {
	switch in := instr.(type) {
	case *ssa.DebugRef:
	case *ssa.UnOp:
		fr.set(in, ex.unop(fr, in))
	case *ssa.BinOp:
		fr.set(in, ex.binop(in.Op, in.X.Type(), fr.get(in.X), fr.get(in.Y)))
	case *ssa.Call:
		fn, args := ex.prepareCall(fr, &in.Call)
		r := ex.call(fr, fn, args)
		ex.curFrame = fr
		fr.set(in, r)
	case *ssa.ChangeInterface:
		fr.set(in, fr.get(in.X))
	case *ssa.ChangeType:
		fr.set(in, fr.get(in.X))
	case *ssa.Convert:
		fr.set(in, ex.conv(in.Type(), in.X.Type(), fr.get(in.X)))
	case *ssa.SliceToArrayPointer:
		panic(unsupported{"SliceToArrayPointer"})
	case *ssa.MakeInterface:
		fr.set(in, Iface{T: in.X.Type(), V: fr.get(in.X)})
	case *ssa.Extract:
		tu, ok := fr.get(in.Tuple).(Tuple)
		if !ok {
			panic(unsupported{fmt.Sprintf("extract from %T", fr.get(in.Tuple))})
		}
		fr.set(in, tu[in.Index])
	case *ssa.Slice:
		fr.set(in, ex.sliceOp(fr, in))
	case *ssa.Return:
		switch len(in.Results) {
		case 0:
		case 1:
			fr.result = fr.get(in.Results[0])
		default:
			res := make(Tuple, len(in.Results))
			for i, r := range in.Results {
				res[i] = fr.get(r)
			}
			fr.result = res
		}
		fr.block = nil
		return kReturn
	case *ssa.RunDefers:
		ex.runDefers(fr)
	case *ssa.Panic:
		v := fr.get(in.X)
		panic(&goPanic{val: v, site: ex.siteForViolation(), msg: ex.describe(v), trace: ex.trace()})
	case *ssa.Send:
		ex.chanSend(fr, fr.get(in.Chan), fr.get(in.X))
	case *ssa.Store:
		ex.store(fr.get(in.Addr), fr.get(in.Val))
	case *ssa.If:
		cond := fr.getT(in.Cond)
		succ := 1
		if !cond.IsConst() {
			if fr.symIf == nil {
				fr.symIf = map[*ssa.If]int{}
			}
			fr.symIf[in]++
			if fr.symIf[in] > ex.unwind {
				panic(unwindExceeded{fmt.Sprintf("loop in %s exceeds unwind bound %d", fr.fn, ex.unwind)})
			}
		}
		if !cond.IsConst() && !ex.pcSet[cond.id] && !ex.pcSet[ex.c.Not(cond).id] && ex.tryMerge(fr, in, cond) {
			return kJump
		}
		if ex.branch(cond) {
			succ = 0
		}
		fr.prev, fr.block = fr.block, fr.block.Succs[succ]
		ex.enterBlock(fr)
		return kJump
	case *ssa.Jump:
		fr.prev, fr.block = fr.block, fr.block.Succs[0]
		ex.enterBlock(fr)
		return kJump
	case *ssa.Defer:
		fn, args := ex.prepareCall(fr, &in.Call)
		if in.DeferStack != nil {
			panic(unsupported{"defer with explicit stack"})
		}
		fr.defers = append(fr.defers, &deferred{fn: fn, args: args, instr: in})
	case *ssa.Go:
		fn, args := ex.prepareCall(fr, &in.Call)
		ex.spawn(fr, fn, args)
	case *ssa.MakeChan:
		fr.set(in, ex.makeChan(fr.getT(in.Size), in.Type()))
	case *ssa.Alloc:
		t := deref(in.Type())
		if in.Heap {
			p := new(Value)
			*p = ex.zero(t)
			fr.set(in, p)
		} else {
			p := fr.env[fr.info.index[in]].(*Value)
			*p = ex.zero(t)
		}
	case *ssa.MakeSlice:
		fr.set(in, ex.makeSlice(in.Type(), fr.getT(in.Len), fr.getT(in.Cap)))
	case *ssa.MakeMap:
		mt := in.Type().Underlying().(*types.Map)
		fr.set(in, &MapV{keyT: mt.Key(), valT: mt.Elem(), tracked: isCodeUnderTest(fr.fn) && !strings.Contains(ex.prog.Fset.Position(in.Pos()).Filename, "zz_verif")})
	case *ssa.Range:
		fr.set(in, ex.rangeIter(fr.get(in.X), in.X.Type()))
	case *ssa.Next:
		fr.set(in, ex.rangeNext(fr.get(in.Iter).(*RangeIter), in))
	case *ssa.FieldAddr:
		x := fr.get(in.X)
		if up, ok := x.(UnsafePtr); ok {
			x = up.V
		}
		p, ok := x.(*Value)
		if !ok {
			if pz, isP := x.(Poison); isP {
				panic(unsupported{pz.why})
			}
			panic(unsupported{fmt.Sprintf("FieldAddr on %T", x)})
		}
		if p == nil {
			ex.fail("nil-deref", "nil pointer dereference (field "+fieldName(in)+")")
		}
		st, ok := (*p).(Struct)
		if !ok {
			if pz, isP := (*p).(Poison); isP {
				panic(unsupported{pz.why})
			}
			panic(unsupported{fmt.Sprintf("FieldAddr on pointer to %T", *p)})
		}
		fr.set(in, &st[in.Field])
	case *ssa.Field:
		st, ok := fr.get(in.X).(Struct)
		if !ok {
			panic(unsupported{fmt.Sprintf("Field on %T", fr.get(in.X))})
		}
		fr.set(in, st[in.Field])
	case *ssa.IndexAddr:
		fr.set(in, ex.indexAddr(fr, in))
	case *ssa.Index:
		fr.set(in, ex.indexOp(fr, in))
	case *ssa.Lookup:
		fr.set(in, ex.lookup(fr, in))
	case *ssa.MapUpdate:
		m, ok := fr.get(in.Map).(*MapV)
		if !ok {
			panic(unsupported{"MapUpdate on non-map"})
		}
		if m == nil {
			ex.goPanicNow("assignment to entry in nil map")
		}
		ex.mapAccessCheck(m, true)
		ex.mapUpdate(m, fr.get(in.Key), ex.copyVal(fr.get(in.Value)))
	case *ssa.TypeAssert:
		fr.set(in, ex.typeAssert(in, fr.get(in.X)))
	case *ssa.MakeClosure:
		var env []Value
		for _, b := range in.Bindings {
			env = append(env, fr.get(b))
		}
		fr.set(in, &Closure{Fn: in.Fn.(*ssa.Function), Env: env})
	case *ssa.Phi:
		panic("phi outside block entry")
	case *ssa.Select:
		fr.set(in, ex.selectOp(fr, in))
	default:
		panic(unsupported{fmt.Sprintf("instruction %T", instr)})
	}
	return kNext
}

type unwindExceeded struct{ why string }

// visitTolerant is used during package initialisation: an instruction the
// engine cannot execute yields a Poison value instead of aborting the init.
func (ex *Exec) visitTolerant(fr *frame, instr ssa.Instruction) (k continuation) {
	defer func() {
		r := recover()
		if r == nil {
			return
		}
		u, ok := r.(unsupported)
		if !ok {
			panic(r)
		}
		ex.curFrame = fr
		switch in := instr.(type) {
		case *ssa.If, *ssa.Jump, *ssa.Return, *ssa.Panic, *ssa.RunDefers:
			panic(r)
		case ssa.Value:
			fr.set(in, Poison{u.why})
			k = kNext
		default:
			// Store / MapUpdate / Send ... : skipped
			if st, isStore := instr.(*ssa.Store); isStore {
				func() {
					defer func() { recover() }()
					if p, ok := fr.get(st.Addr).(*Value); ok && p != nil {
						*p = Poison{u.why}
					}
				}()
			}
			k = kNext
		}
	}()
	return ex.visit(fr, instr)
}

func fieldName(in *ssa.FieldAddr) string {
	st := deref(in.X.Type()).Underlying().(*types.Struct)
	return st.Field(in.Field).Name()
}

// enterBlock evaluates the phis of the block just entered (parallel copy).
func (ex *Exec) enterBlock(fr *frame) {
	b := fr.block
	var idx = -1
	for i, p := range b.Preds {
		if p == fr.prev {
			idx = i
			break
		}
	}
	var vals []Value
	var phis []*ssa.Phi
	for _, in := range b.Instrs {
		phi, ok := in.(*ssa.Phi)
		if !ok {
			break
		}
		phis = append(phis, phi)
		vals = append(vals, fr.get(phi.Edges[idx]))
	}
	for i, phi := range phis {
		fr.set(phi, vals[i])
	}
	fr.skipPhis = len(phis)
}

// callFnNoIntrinsic runs the real body of a function that has an intrinsic (used by intrinsics that only
// cover a special case).
func (ex *Exec) callFnNoIntrinsic(caller *frame, fn *ssa.Function, args []Value) Value {
	ex.noIntr = fn
	return ex.callFn(caller, fn, args, nil)
}


// isCodeUnderTest: a function of the repository itself (not a harness function, not a harness support package).
func isCodeUnderTest(fn *ssa.Function) bool {
	for f := fn; f != nil; f = f.Parent() {
		if strings.HasPrefix(f.Name(), "verif") || strings.HasPrefix(f.Name(), "Verif") {
			return false
		}
	}
	pkg := fn.Pkg
	if pkg == nil && fn.Origin() != nil {
		pkg = fn.Origin().Pkg
	}
	for f := fn; pkg == nil && f.Parent() != nil; f = f.Parent() {
		pkg = f.Parent().Pkg
	}
	if pkg == nil {
		return false
	}
	path := pkg.Pkg.Path()
	return strings.HasPrefix(path, "github.com/relex/slog-agent") && !strings.Contains(path, "/zz_verif")
}
