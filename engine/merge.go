package main

// If-conversion: a region of side-effect-free blocks hanging off a symbolic
// branch (the SSA shape of && / || / simple conditional expressions) is
// evaluated speculatively under guards, and the executor forks only over the
// region's exit targets instead of over every atomic condition.

import (
	"go/token"
	"go/types"

	"golang.org/x/tools/go/ssa"
)

type specAbort struct{ why string }

type exitEdge struct {
	from  *ssa.BasicBlock
	to    *ssa.BasicBlock
	guard *T
}

const maxRegionBlocks = 24
const maxRegionInstrs = 160

func pureInstr(in ssa.Instruction) bool {
	switch x := in.(type) {
	case *ssa.DebugRef, *ssa.BinOp, *ssa.Convert, *ssa.ChangeType, *ssa.ChangeInterface, *ssa.Extract,
		*ssa.Field, *ssa.FieldAddr, *ssa.IndexAddr, *ssa.Index, *ssa.Slice, *ssa.MakeInterface, *ssa.Phi:
		return true
	case *ssa.UnOp:
		return x.Op != token.ARROW
	case *ssa.Lookup:
		_, isMap := x.X.Type().Underlying().(*types.Map)
		return !isMap
	case *ssa.TypeAssert:
		return x.CommaOk
	case *ssa.Call:
		if b, ok := x.Call.Value.(*ssa.Builtin); ok {
			switch b.Name() {
			case "len", "cap", "min", "max":
				return true
			}
		}
		return false
	}
	return false
}

func simpleBlock(b *ssa.BasicBlock) bool {
	if len(b.Preds) != 1 {
		return false
	}
	n := len(b.Instrs)
	if n == 0 || n > 40 {
		return false
	}
	for _, in := range b.Instrs[:n-1] {
		if !pureInstr(in) {
			return false
		}
	}
	switch b.Instrs[n-1].(type) {
	case *ssa.Jump, *ssa.If:
		return true
	}
	return false
}

// tryMerge handles the If terminating fr.block. It returns true when it has
// transferred control (fr.block/skipPhis set).
func (ex *Exec) tryMerge(fr *frame, in *ssa.If, cond *T) (done bool) {
	if ex.noMerge || ex.initMode > 0 {
		return false
	}
	B := fr.block
	// cheap pre-check: at least one successor must be a simple block
	if !simpleBlock(B.Succs[0]) && !simpleBlock(B.Succs[1]) {
		return false
	}
	c := ex.c
	var edges []exitEdge
	nBlocks, nInstrs := 0, 0
	saveGuard, saveSpec := ex.guard, ex.speculating
	defer func() {
		ex.guard, ex.speculating = saveGuard, saveSpec
		if r := recover(); r != nil {
			if _, ok := r.(specAbort); ok {
				done = false
				return
			}
			panic(r)
		}
	}()
	ex.speculating = true
	var explore func(x, from *ssa.BasicBlock, g *T)
	explore = func(x, from *ssa.BasicBlock, g *T) {
		if g.IsFalse() {
			return
		}
		if !simpleBlock(x) {
			edges = append(edges, exitEdge{from, x, g})
			return
		}
		nBlocks++
		nInstrs += len(x.Instrs)
		if nBlocks > maxRegionBlocks || nInstrs > maxRegionInstrs {
			panic(specAbort{"region too large"})
		}
		ex.guard = g
		if saveGuard != nil {
			ex.guard = c.And(saveGuard, g)
		}
		n := len(x.Instrs)
		for _, instr := range x.Instrs[:n-1] {
			ex.steps++
			fr.curInstr = instr
			if phi, ok := instr.(*ssa.Phi); ok {
				fr.set(phi, fr.get(phi.Edges[0]))
				continue
			}
			ex.visit(fr, instr)
		}
		switch t := x.Instrs[n-1].(type) {
		case *ssa.Jump:
			explore(x.Succs[0], x, g)
		case *ssa.If:
			cv := fr.getT(t.Cond)
			explore(x.Succs[0], x, c.And(g, cv))
			explore(x.Succs[1], x, c.And(g, c.Not(cv)))
		}
	}
	explore(B.Succs[0], B, cond)
	explore(B.Succs[1], B, c.Not(cond))
	ex.guard, ex.speculating = saveGuard, saveSpec
	if nBlocks == 0 {
		return false
	}
	// group exit edges by target, in first-seen order
	var targets []*ssa.BasicBlock
	byTarget := map[*ssa.BasicBlock][]exitEdge{}
	for _, e := range edges {
		if _, ok := byTarget[e.to]; !ok {
			targets = append(targets, e.to)
		}
		byTarget[e.to] = append(byTarget[e.to], e)
	}
	if len(targets) == 0 {
		panic(pathEnd{"no feasible exit of merged region"})
	}
	chosen := targets[len(targets)-1]
	for _, tgt := range targets[:len(targets)-1] {
		var gs []*T
		for _, e := range byTarget[tgt] {
			gs = append(gs, e.guard)
		}
		if ex.branch(c.Or(gs...)) {
			chosen = tgt
			break
		}
	}
	// phis of the chosen target from the guards of its incoming region edges
	es := byTarget[chosen]
	var phis []*ssa.Phi
	var vals []Value
	for _, instr := range chosen.Instrs {
		phi, ok := instr.(*ssa.Phi)
		if !ok {
			break
		}
		var v Value
		for i := len(es) - 1; i >= 0; i-- {
			e := es[i]
			idx := -1
			for k, p := range chosen.Preds {
				if p == e.from {
					idx = k
					break
				}
			}
			ev := fr.get(phi.Edges[idx])
			if v == nil || i == len(es)-1 {
				v = ev
				continue
			}
			v = ex.iteValue(e.guard, ev, v)
		}
		phis = append(phis, phi)
		vals = append(vals, v)
	}
	for i, phi := range phis {
		fr.set(phi, vals[i])
	}
	fr.prev, fr.block = es[0].from, chosen
	fr.skipPhis = len(phis)
	return true
}

// iteValue builds ite(g, a, b) for scalar values; other kinds abort the merge.
func (ex *Exec) iteValue(g *T, a, b Value) Value {
	ta, ok1 := a.(*T)
	tb, ok2 := b.(*T)
	if ok1 && ok2 && ta.s == tb.s {
		return ex.c.Ite(g, ta, tb)
	}
	va, ok1 := a.(View)
	vb, ok2 := b.(View)
	if ok1 && ok2 && va.O == vb.O {
		c := ex.c
		return View{O: va.O, Off: c.Ite(g, va.Off, vb.Off), Len: c.Ite(g, va.Len, vb.Len), Cap: c.Ite(g, va.Cap, vb.Cap)}
	}
	if pa, ok := a.(*Value); ok {
		if pb, ok := b.(*Value); ok && pa == pb {
			return a
		}
	}
	panic(specAbort{"phi of non-scalar values"})
}
