package main

// Goroutines, channels, select, timers and sync primitives.
// Goroutines of the program under test run as real goroutines of the engine
// with baton passing: exactly one runs at a time; switches happen only at
// visible operations and are decisions of the path (ex.choose).

import (
	"fmt"
	"go/types"
	"sort"
	"strings"

	"golang.org/x/tools/go/ssa"
)

type Goroutine struct {
	syncEpoch int // number of synchronisation operations performed so far (race detection)
	id      int
	resume  chan struct{}
	done    bool
	started bool
	ready   func() bool // nil = runnable
	what    string      // description of what it is blocked on
	fnName  string
}

type ChanV struct {
	id       int
	capacity int
	buf      []Value
	closed   bool
	recvq    []*waiter
	sendq    []*waiter
	elemT    types.Type
	timer    *Timer
}

type waiter struct {
	g    *Goroutine
	sel  *selWait
	idx  int
	val  Value // value to send
	send bool
}

type selWait struct {
	fired      bool
	chosen     int
	recvVal    Value
	recvOk     bool
	panicClose bool
}

type Timer struct {
	deadline int64 // virtual time (ns) at which it fires
	period   int64
	id       int
	ch       *ChanV
	active   bool
	periodic bool
	fn       Value // AfterFunc
	fired    int
}

type lockState struct {
	writer  bool
	readers int
	wgCount int
}

type Scheduler struct {
	vnow        int64 // virtual clock: advances only when every goroutine is blocked
	delays      int
	maxDelays   int // -1 = unbounded
	preemptions int
	maxPreempt  int
	timerFires  int
	maxTimers   int
	timers      []*Timer
	nextChan    int
	nextTimer   int
	pending     interface{} // control panic raised in a non-main goroutine
	aborting    bool
	deadlockOK  bool
	events      []string
	abortAck    chan struct{}
}

type abortGoroutine struct{}

func shortFn(s string) string {
	if i := strings.LastIndex(s, "/"); i >= 0 {
		return s[i+1:]
	}
	return s
}

func (ex *Exec) initSched() {
	ex.sched = &Scheduler{maxPreempt: ex.h.Preempt, maxTimers: ex.h.Timers, maxDelays: ex.h.Delays, abortAck: make(chan struct{})}
	main := &Goroutine{id: 0, resume: make(chan struct{}), started: true, fnName: "main"}
	ex.gs = []*Goroutine{main}
	ex.curG = main
}

func (ex *Exec) spawn(fr *frame, fn Value, args []Value) {
	if ex.initMode > 0 {
		panic(unsupported{"go statement during package init"})
	}
	g := &Goroutine{id: len(ex.gs), resume: make(chan struct{})}
	switch f := fn.(type) {
	case *ssa.Function:
		g.fnName = f.String()
	case *Closure:
		g.fnName = f.Fn.String()
	}
	ex.gs = append(ex.gs, g)
	go func() {
		<-g.resume
		g.started = true
		defer func() {
			r := recover()
			g.done = true
			if r != nil {
				if _, ok := r.(abortGoroutine); ok {
					ex.sched.abortAck <- struct{}{}
					return
				}
				if gp, ok := r.(*goPanic); ok {
					// uncaught panic in a goroutine crashes the process
					ex.curFrame = nil
					func() {
						defer func() {
							if r2 := recover(); r2 != nil {
								ex.sched.pending = r2
							}
						}()
						ex.uncaughtPanic(gp)
					}()
				} else {
					ex.sched.pending = r
				}
				// hand control back to main, which re-raises
				ex.curG = ex.gs[0]
				ex.gs[0].resume <- struct{}{}
				return
			}
			// normal exit: pick someone else
			ex.curFrame = nil
			func() {
				defer func() {
					if r2 := recover(); r2 != nil {
						ex.sched.pending = r2
						ex.curG = ex.gs[0]
						ex.gs[0].resume <- struct{}{}
					}
				}()
				ex.switchAway(g, true)
			}()
		}()
		if ex.sched.aborting {
			panic(abortGoroutine{})
		}
		ex.curG = g
		ex.curFrame = nil
		ex.call(nil, fn, args)
	}()
	ex.yield("go")
}

func (ex *Exec) uncaughtPanic(gp *goPanic) {
	ex.ensureModel()
	ex.res.Obligations++
	v := &Violation{Kind: "panic", Label: gp.msg, Site: gp.site, Model: ex.model.clone(), Trace: gp.trace, Harness: ex.h.Name}
	ex.res.Violations = append(ex.res.Violations, v)
	panic(pathEnd{"uncaught panic: " + gp.msg})
}

func (ex *Exec) enabled() []*Goroutine {
	var out []*Goroutine
	for _, g := range ex.gs {
		if g.done {
			continue
		}
		if g.ready == nil || g.ready() {
			out = append(out, g)
		}
	}
	return out
}

func (ex *Exec) activeTimers() []*Timer {
	var out []*Timer
	for _, t := range ex.sched.timers {
		if t.active {
			out = append(out, t)
		}
	}
	return out
}

// yield is called before a visible operation; the current goroutine stays
// runnable. Switching away costs one preemption.
func (ex *Exec) yield(what string) {
	if ex.sched == nil || ex.initMode > 0 {
		return
	}
	if ex.curG != nil && !strings.HasPrefix(what, "call ") {
		ex.curG.syncEpoch++ // every visible operation is a synchronisation operation; a preemption at a call boundary is not
	}
	if len(ex.gs) == 1 && len(ex.sched.timers) == 0 {
		return
	}
	if ex.sched.preemptions >= ex.sched.maxPreempt {
		return
	}
	cur := ex.curG
	if ex.h.PreemptIn != "" && !strings.Contains(cur.fnName, ex.h.PreemptIn) {
		return
	}
	en := ex.enabled()
	var others []*Goroutine
	for _, g := range en {
		if g != cur {
			others = append(others, g)
		}
	}
	// time passes only when every goroutine is blocked (maximal progress): timers do not fire here
	if len(others) == 0 {
		return
	}
	k := ex.choose(1 + len(others))
	if k == 0 {
		return
	}
	ex.sched.preemptions++
	ex.transfer(cur, others[k-1])
}

// schedChoose picks one of n scheduling alternatives. Alternative 0 is the
// default of the deterministic scheduler (round robin / first ready case); any
// other alternative costs one unit of the delay budget (delay-bounded
// scheduling); with the budget used up the default is taken.
func (ex *Exec) schedChoose(n int) int {
	if n <= 1 {
		return 0
	}
	if ex.sched.maxDelays >= 0 && ex.sched.delays >= ex.sched.maxDelays {
		return 0
	}
	k := ex.choose(n)
	if k > 0 {
		ex.sched.delays++
	}
	return k
}

// rotate orders candidates round robin after the current goroutine.
func rotate(cands []*Goroutine, cur *Goroutine) []*Goroutine {
	if cur == nil || len(cands) < 2 {
		return cands
	}
	i := 0
	for i < len(cands) && cands[i].id <= cur.id {
		i++
	}
	return append(append([]*Goroutine{}, cands[i:]...), cands[:i]...)
}

// yieldFree is an explicit scheduling point of the harness: any enabled
// goroutine may run next; it does not consume the preemption budget.
func (ex *Exec) yieldFree(what string) {
	if ex.sched == nil || ex.initMode > 0 || len(ex.gs) == 1 {
		return
	}
	cur := ex.curG
	var others []*Goroutine
	for _, g := range ex.enabled() {
		if g != cur {
			others = append(others, g)
		}
	}
	if len(others) == 0 {
		return
	}
	others = rotate(others, cur)
	k := ex.schedChoose(1 + len(others))
	if k == 0 {
		return
	}
	ex.transfer(cur, others[k-1])
}

// switchAway is called when the current goroutine cannot continue (blocked or
// finished). It hands the baton to another goroutine; blocking switches are free.
func (ex *Exec) switchAway(cur *Goroutine, exiting bool) {
	for {
		en := ex.enabled()
		var cands []*Goroutine
		for _, g := range en {
			if g != cur || !exiting {
				cands = append(cands, g)
			}
		}
		// the current goroutine may have become ready again (e.g. timer fired)
		// maximal progress: a timer fires only when nothing else can run
		timers := ex.activeTimers()
		nT := 0
		if len(cands) == 0 {
			nT = len(timers)
			if ex.sched.maxTimers > 0 && ex.sched.timerFires >= ex.sched.maxTimers {
				panic(budgetExceeded{"timer firing budget"})
			}
		}
		if len(cands) == 0 && nT == 0 {
			if exiting && cur.id != 0 {
				// nothing else can run; main is blocked forever
				ex.deadlock()
			}
			ex.deadlock()
		}
		cands = rotate(cands, cur)
		var k int
		if len(cands) > 0 {
			k = ex.schedChoose(len(cands))
		} else {
			// discrete-event time: the timer with the earliest deadline fires
			k = 0
			for i, t := range timers {
				if t.deadline < timers[k].deadline {
					k = i
				}
			}
			ex.sched.vnow = timers[k].deadline
		}
		if k < len(cands) {
			next := cands[k]
			if next == cur {
				return
			}
			if exiting {
				ex.sched.events = append(ex.sched.events, fmt.Sprintf("g%d[%s] exits -> g%d[%s]", cur.id, shortFn(cur.fnName), next.id, shortFn(next.fnName)))
				ex.curG = next
				next.resume <- struct{}{}
				return
			}
			ex.transfer(cur, next)
			if cur.ready == nil || cur.ready() {
				return
			}
			continue
		}
		ex.fireTimer(timers[k-len(cands)])
		if !exiting && (cur.ready == nil || cur.ready()) {
			return
		}
	}
}

func (ex *Exec) transfer(cur, next *Goroutine) {
	ex.sched.events = append(ex.sched.events, fmt.Sprintf("g%d[%s] -> g%d[%s] (%s)", cur.id, shortFn(cur.fnName), next.id, shortFn(next.fnName), cur.what))
	saveFrame := ex.curFrame
	ex.curG = next
	next.resume <- struct{}{}
	<-cur.resume
	ex.curG = cur
	ex.curFrame = saveFrame
	if ex.sched.aborting && cur.id != 0 {
		panic(abortGoroutine{})
	}
	if cur.id == 0 && ex.sched.pending != nil {
		p := ex.sched.pending
		ex.sched.pending = nil
		panic(p)
	}
}

func (ex *Exec) deadlock() {
	var desc []string
	for _, g := range ex.gs {
		if !g.done {
			desc = append(desc, fmt.Sprintf("g%d(%s) blocked on %s", g.id, g.fnName, g.what))
		}
	}
	sort.Strings(desc)
	ex.ensureModel()
	ex.res.Obligations++
	v := &Violation{Kind: "deadlock", Label: "all goroutines blocked: " + fmt.Sprint(desc), Site: ex.siteForViolation(), Model: ex.model.clone(), Trace: ex.trace(), Harness: ex.h.Name}
	ex.res.Violations = append(ex.res.Violations, v)
	panic(pathEnd{"deadlock"})
}

// block parks the current goroutine until ready() holds.
func (ex *Exec) block(ready func() bool, what string) {
	if ex.initMode > 0 {
		panic(unsupported{"blocking operation during package init"})
	}
	cur := ex.curG
	cur.syncEpoch++
	for !ready() {
		cur.ready = ready
		cur.what = what
		ex.switchAway(cur, false)
	}
	cur.ready = nil
	cur.what = ""
}

// killGoroutines terminates every parked goroutine at the end of a path.
func (ex *Exec) killGoroutines() []string {
	var leaked []string
	if ex.sched == nil {
		return nil
	}
	ex.sched.aborting = true
	for _, g := range ex.gs[1:] {
		if g.done {
			continue
		}
		leaked = append(leaked, fmt.Sprintf("g%d(%s) on %s", g.id, g.fnName, g.what))
		g.resume <- struct{}{}
		<-ex.sched.abortAck
	}
	return leaked
}

// ---------- timers ----------

func (ex *Exec) newTimer(periodic bool, fn Value, dur Value) *Timer {
	if ex.sched == nil {
		panic(unsupported{"timer without scheduler"})
	}
	d := int64(0)
	if dt, ok := dur.(*T); ok {
		if k, isC := dt.ConstS(); isC && k > 0 {
			d = k
		}
	}
	ex.sched.nextTimer++
	t := &Timer{id: ex.sched.nextTimer, active: true, periodic: periodic, fn: fn, deadline: ex.sched.vnow + d, period: d}
	if fn == nil {
		t.ch = ex.newChan(1, ex.timeType())
		t.ch.timer = t
	}
	ex.sched.timers = append(ex.sched.timers, t)
	return t
}

func (ex *Exec) timeType() types.Type {
	return ex.prog.ImportedPackage("time").Type("Time").Type()
}

func (ex *Exec) fireTimer(t *Timer) {
	ex.sched.events = append(ex.sched.events, fmt.Sprintf("timer#%d fires", t.id))
	ex.sched.timerFires++
	t.fired++
	if !t.periodic {
		t.active = false
	} else {
		t.deadline += t.period
	}
	if t.fn != nil {
		fn := t.fn
		ex.spawn(nil, fn, nil)
		return
	}
	if len(t.ch.buf) < t.ch.capacity {
		ex.chanDeliver(t.ch, ex.timeNow())
	}
}

// yieldTimer is kept for callers without a duration.
func (ex *Exec) yieldTimer() {
	ex.yield("sleep")
}

// sleep blocks the goroutine until virtual time has advanced by d.
func (ex *Exec) sleep(d Value) {
	if ex.sched == nil || ex.initMode > 0 {
		return
	}
	t := ex.newTimer(false, nil, d)
	ex.selectGeneric([]selCase{{ch: t.ch}}, false, "sleep")
}

// ---------- channels ----------

func (ex *Exec) newChan(capacity int, elem types.Type) *ChanV {
	n := 0
	if ex.sched != nil {
		ex.sched.nextChan++
		n = ex.sched.nextChan
	}
	return &ChanV{id: n, capacity: capacity, elemT: elem}
}

func (ex *Exec) makeChan(size *T, t types.Type) Value {
	n := ex.concretize(ex.to64(size, types.Typ[types.Int]), 0, 1<<16)
	return ex.newChan(int(n), t.Underlying().(*types.Chan).Elem())
}

func (ex *Exec) chanLen(ch *ChanV) int {
	if ch == nil {
		return 0
	}
	return len(ch.buf)
}

func (ch *ChanV) liveRecv() *waiter {
	for len(ch.recvq) > 0 {
		w := ch.recvq[0]
		if w.sel.fired {
			ch.recvq = ch.recvq[1:]
			continue
		}
		return w
	}
	return nil
}

func (ch *ChanV) liveSend() *waiter {
	for len(ch.sendq) > 0 {
		w := ch.sendq[0]
		if w.sel.fired {
			ch.sendq = ch.sendq[1:]
			continue
		}
		return w
	}
	return nil
}

// chanDeliver puts a value into the channel from a non-blocking source.
func (ex *Exec) chanDeliver(ch *ChanV, v Value) {
	if w := ch.liveRecv(); w != nil {
		ch.recvq = ch.recvq[1:]
		w.sel.fired, w.sel.chosen, w.sel.recvVal, w.sel.recvOk = true, w.idx, v, true
		return
	}
	ch.buf = append(ch.buf, v)
}

type selCase struct {
	ch   *ChanV
	send bool
	val  Value
}

func (ex *Exec) caseReady(cs selCase) bool {
	ch := cs.ch
	if ch == nil {
		return false
	}
	if cs.send {
		return ch.closed || ch.liveRecv() != nil || len(ch.buf) < ch.capacity
	}
	return len(ch.buf) > 0 || ch.liveSend() != nil || ch.closed
}

// perform executes a ready case.
func (ex *Exec) perform(cs selCase) (Value, bool) {
	ch := cs.ch
	if cs.send {
		if ch.closed {
			ex.goPanicNow("send on closed channel")
		}
		ex.chanDeliver(ch, ex.copyVal(cs.val))
		return nil, false
	}
	if len(ch.buf) > 0 {
		v := ch.buf[0]
		ch.buf = ch.buf[1:]
		// a blocked sender can now move its value into the buffer
		if w := ch.liveSend(); w != nil {
			ch.sendq = ch.sendq[1:]
			ch.buf = append(ch.buf, ex.copyVal(w.val))
			w.sel.fired, w.sel.chosen = true, w.idx
		}
		return v, true
	}
	if w := ch.liveSend(); w != nil {
		ch.sendq = ch.sendq[1:]
		w.sel.fired, w.sel.chosen = true, w.idx
		return ex.copyVal(w.val), true
	}
	// closed
	return ex.zero(ch.elemT), false
}

// selectGeneric implements select; returns chosen index (-1 default), value, ok.
func (ex *Exec) selectGeneric(cases []selCase, hasDefault bool, what string) (int, Value, bool) {
	if ex.initMode > 0 {
		panic(unsupported{"channel operation during package init"})
	}
	if ex.sched == nil {
		panic(unsupported{"channel operation without scheduler"})
	}
	ex.yield(what)
	var ready []int
	for i, cs := range cases {
		if ex.caseReady(cs) {
			ready = append(ready, i)
		}
	}
	if len(ready) > 0 {
		k := 0
		if len(ready) > 1 {
			k = ex.schedChoose(len(ready))
		}
		i := ready[k]
		v, ok := ex.perform(cases[i])
		return i, v, ok
	}
	if hasDefault {
		return -1, nil, false
	}
	// block on all cases
	sw := &selWait{}
	cur := ex.curG
	nonNil := 0
	for i, cs := range cases {
		if cs.ch == nil {
			continue
		}
		nonNil++
		w := &waiter{g: cur, sel: sw, idx: i, val: cs.val, send: cs.send}
		if cs.send {
			cs.ch.sendq = append(cs.ch.sendq, w)
		} else {
			cs.ch.recvq = append(cs.ch.recvq, w)
		}
	}
	desc := what
	if nonNil == 0 {
		desc += " (nil channels only)"
	}
	ex.block(func() bool { return sw.fired }, desc)
	if sw.panicClose {
		ex.goPanicNow("send on closed channel")
	}
	if cases[sw.chosen].send {
		return sw.chosen, nil, false
	}
	v := sw.recvVal
	if !sw.recvOk {
		v = ex.zero(cases[sw.chosen].ch.elemT)
	}
	return sw.chosen, v, sw.recvOk
}

func (ex *Exec) asChan(v Value) *ChanV {
	switch c := v.(type) {
	case *ChanV:
		return c
	case Poison:
		panic(unsupported{c.why})
	}
	panic(unsupported{fmt.Sprintf("channel op on %T", v)})
}

func (ex *Exec) chanSend(fr *frame, chv Value, v Value) {
	ch := ex.asChan(chv)
	ex.selectGeneric([]selCase{{ch: ch, send: true, val: v}}, false, fmt.Sprintf("send on chan#%d", chanID(ch)))
}

func chanID(ch *ChanV) int {
	if ch == nil {
		return 0
	}
	return ch.id
}

func (ex *Exec) chanRecv(fr *frame, chv Value, commaOk bool, t types.Type) Value {
	ch := ex.asChan(chv)
	_, v, ok := ex.selectGeneric([]selCase{{ch: ch}}, false, fmt.Sprintf("receive on chan#%d", chanID(ch)))
	if commaOk {
		return Tuple{v, ex.c.Bool(ok)}
	}
	return v
}

func (ex *Exec) chanClose(fr *frame, chv Value) {
	ch := ex.asChan(chv)
	if ch == nil {
		ex.goPanicNow("close of nil channel")
	}
	ex.yield("close")
	if ch.closed {
		ex.goPanicNow("close of closed channel")
	}
	ch.closed = true
	for _, w := range ch.recvq {
		if !w.sel.fired {
			w.sel.fired, w.sel.chosen, w.sel.recvOk = true, w.idx, false
		}
	}
	ch.recvq = nil
	for _, w := range ch.sendq {
		if !w.sel.fired {
			w.sel.fired, w.sel.chosen, w.sel.panicClose = true, w.idx, true
		}
	}
	ch.sendq = nil
	if ch.timer != nil {
		ch.timer.active = false
	}
}

func (ex *Exec) selectOp(fr *frame, in *ssa.Select) Value {
	var cases []selCase
	for _, st := range in.States {
		cs := selCase{ch: ex.asChan(fr.get(st.Chan))}
		if st.Dir == types.SendOnly {
			cs.send = true
			cs.val = fr.get(st.Send)
		}
		cases = append(cases, cs)
	}
	idx, v, ok := ex.selectGeneric(cases, !in.Blocking, "select")
	r := Tuple{ex.intConst(int64(idx)), ex.c.Bool(ok)}
	for i, st := range in.States {
		if st.Dir == types.RecvOnly {
			if i == idx {
				r = append(r, v)
			} else {
				r = append(r, ex.zero(st.Chan.Type().Underlying().(*types.Chan).Elem()))
			}
		}
	}
	return r
}

// ---------- sync primitives ----------

func (ex *Exec) lockOf(p Value) *lockState {
	ptr, ok := p.(*Value)
	if !ok || ptr == nil {
		ex.fail("nil-deref", "lock operation on nil")
	}
	ls := ex.locks[ptr]
	if ls == nil {
		ls = &lockState{}
		ex.locks[ptr] = ls
	}
	return ls
}

func registerSyncIntrinsics() {
	type I = func(ex *Exec, fr *frame, fn *ssa.Function, args []Value) Value
	lock := func(ex *Exec, fr *frame, fn *ssa.Function, args []Value) Value {
		ls := ex.lockOf(args[0])
		ex.yield("lock")
		if ls.writer || ls.readers > 0 {
			ex.block(func() bool { return !ls.writer && ls.readers == 0 }, "Lock")
		}
		ls.writer = true
		return nil
	}
	unlock := func(ex *Exec, fr *frame, fn *ssa.Function, args []Value) Value {
		ls := ex.lockOf(args[0])
		if !ls.writer {
			ex.fail("unlock-unlocked", "sync: unlock of unlocked mutex")
		}
		ls.writer = false
		ex.yield("unlock")
		return nil
	}
	rlock := func(ex *Exec, fr *frame, fn *ssa.Function, args []Value) Value {
		ls := ex.lockOf(args[0])
		ex.yield("rlock")
		if ls.writer {
			ex.block(func() bool { return !ls.writer }, "RLock")
		}
		ls.readers++
		res := fn.Signature.Results()
		if res.Len() == 1 {
			return ex.zero(res.At(0).Type())
		}
		return nil
	}
	runlock := func(ex *Exec, fr *frame, fn *ssa.Function, args []Value) Value {
		ls := ex.lockOf(args[0])
		if ls.readers <= 0 {
			ex.fail("unlock-unlocked", "sync: RUnlock of unlocked RWMutex")
		}
		ls.readers--
		ex.yield("runlock")
		return nil
	}
	trylock := func(ex *Exec, fr *frame, fn *ssa.Function, args []Value) Value {
		ls := ex.lockOf(args[0])
		ex.yield("trylock")
		if ls.writer || ls.readers > 0 {
			return ex.c.False
		}
		ls.writer = true
		return ex.c.True
	}
	for _, n := range []string{"(*sync.Mutex).Lock", "(*sync.RWMutex).Lock", "(*github.com/puzpuzpuz/xsync.RBMutex).Lock"} {
		intrinsics[n] = lock
	}
	for _, n := range []string{"(*sync.Mutex).Unlock", "(*sync.RWMutex).Unlock", "(*github.com/puzpuzpuz/xsync.RBMutex).Unlock"} {
		intrinsics[n] = unlock
	}
	for _, n := range []string{"(*sync.RWMutex).RLock", "(*github.com/puzpuzpuz/xsync.RBMutex).RLock"} {
		intrinsics[n] = rlock
	}
	for _, n := range []string{"(*sync.RWMutex).RUnlock", "(*github.com/puzpuzpuz/xsync.RBMutex).RUnlock"} {
		intrinsics[n] = runlock
	}
	intrinsics["(*sync.Mutex).TryLock"] = trylock

	intrinsics["(*sync.WaitGroup).Add"] = func(ex *Exec, fr *frame, fn *ssa.Function, args []Value) Value {
		ls := ex.lockOf(args[0])
		d, ok := args[1].(*T).ConstS()
		if !ok {
			panic(unsupported{"WaitGroup.Add of symbolic delta"})
		}
		ls.wgCount += int(d)
		if ls.wgCount < 0 {
			ex.goPanicNow("sync: negative WaitGroup counter")
		}
		ex.yield("wg.add")
		return nil
	}
	intrinsics["(*sync.WaitGroup).Done"] = func(ex *Exec, fr *frame, fn *ssa.Function, args []Value) Value {
		ls := ex.lockOf(args[0])
		ls.wgCount--
		if ls.wgCount < 0 {
			ex.goPanicNow("sync: negative WaitGroup counter")
		}
		ex.yield("wg.done")
		return nil
	}
	intrinsics["(*sync.WaitGroup).Wait"] = func(ex *Exec, fr *frame, fn *ssa.Function, args []Value) Value {
		ls := ex.lockOf(args[0])
		ex.yield("wg.wait")
		if ls.wgCount > 0 {
			ex.block(func() bool { return ls.wgCount == 0 }, "WaitGroup.Wait")
		}
		return nil
	}

	// atomics on integer cells
	atomicLoad := func(ex *Exec, fr *frame, fn *ssa.Function, args []Value) Value {
		ex.yield("atomic")
		return ex.load(args[0])
	}
	atomicStore := func(ex *Exec, fr *frame, fn *ssa.Function, args []Value) Value {
		ex.yield("atomic")
		ex.store(args[0], args[1])
		return nil
	}
	atomicAdd := func(ex *Exec, fr *frame, fn *ssa.Function, args []Value) Value {
		ex.yield("atomic")
		old := ex.load(args[0]).(*T)
		nv := ex.c.Add(old, args[1].(*T))
		ex.store(args[0], nv)
		return nv
	}
	atomicSwap := func(ex *Exec, fr *frame, fn *ssa.Function, args []Value) Value {
		ex.yield("atomic")
		old := ex.load(args[0])
		ex.store(args[0], args[1])
		return old
	}
	atomicCAS := func(ex *Exec, fr *frame, fn *ssa.Function, args []Value) Value {
		ex.yield("atomic")
		old := ex.load(args[0])
		t := deref(fn.Signature.Params().At(0).Type())
		eq := ex.valEq(t, old, args[1])
		if ex.branch(eq) {
			ex.store(args[0], args[2])
			return ex.c.True
		}
		return ex.c.False
	}
	for _, ty := range []string{"Int32", "Int64", "Uint32", "Uint64", "Uintptr", "Pointer"} {
		intrinsics["sync/atomic.Load"+ty] = atomicLoad
		intrinsics["sync/atomic.Store"+ty] = atomicStore
		intrinsics["sync/atomic.Swap"+ty] = atomicSwap
		intrinsics["sync/atomic.CompareAndSwap"+ty] = atomicCAS
		if ty != "Pointer" {
			intrinsics["sync/atomic.Add"+ty] = atomicAdd
		}
	}
	for _, ty := range []string{"Int32", "Int64", "Uint32", "Uint64"} {
		intrinsics["sync/atomic.And"+ty] = func(ex *Exec, fr *frame, fn *ssa.Function, args []Value) Value {
			old := ex.load(args[0]).(*T)
			ex.store(args[0], ex.c.BAnd(old, args[1].(*T)))
			return old
		}
		intrinsics["sync/atomic.Or"+ty] = func(ex *Exec, fr *frame, fn *ssa.Function, args []Value) Value {
			old := ex.load(args[0]).(*T)
			ex.store(args[0], ex.c.BOr(old, args[1].(*T)))
			return old
		}
	}
	// atomic.Value: keep the interface value in field 0
	intrinsics["(*sync/atomic.Value).Load"] = func(ex *Exec, fr *frame, fn *ssa.Function, args []Value) Value {
		ex.yield("atomic")
		st := (*args[0].(*Value)).(Struct)
		return st[0]
	}
	intrinsics["(*sync/atomic.Value).Store"] = func(ex *Exec, fr *frame, fn *ssa.Function, args []Value) Value {
		ex.yield("atomic")
		st := (*args[0].(*Value)).(Struct)
		st[0] = args[1]
		return nil
	}
	// atomic.Pointer[T]: fields {_ [0]*T, _ noCopy, v unsafe.Pointer}
	ptrField := func(ex *Exec, p Value) *Value {
		ptr, ok := p.(*Value)
		if !ok || ptr == nil {
			ex.fail("nil-deref", "atomic.Pointer on nil")
		}
		st := (*ptr).(Struct)
		return &st[len(st)-1]
	}
	intrinsics["(*sync/atomic.Pointer[T]).Load"] = func(ex *Exec, fr *frame, fn *ssa.Function, args []Value) Value {
		ex.yield("atomic")
		f := ptrField(ex, args[0])
		up, _ := (*f).(UnsafePtr)
		if up.V == nil {
			return ex.zero(fn.Signature.Results().At(0).Type())
		}
		return up.V
	}
	intrinsics["(*sync/atomic.Pointer[T]).Store"] = func(ex *Exec, fr *frame, fn *ssa.Function, args []Value) Value {
		ex.yield("atomic")
		f := ptrField(ex, args[0])
		*f = UnsafePtr{V: args[1]}
		return nil
	}
	intrinsics["(*sync/atomic.Pointer[T]).Swap"] = func(ex *Exec, fr *frame, fn *ssa.Function, args []Value) Value {
		ex.yield("atomic")
		f := ptrField(ex, args[0])
		up, _ := (*f).(UnsafePtr)
		*f = UnsafePtr{V: args[1]}
		if up.V == nil {
			return ex.zero(fn.Signature.Results().At(0).Type())
		}
		return up.V
	}
	intrinsics["(*sync/atomic.Pointer[T]).CompareAndSwap"] = func(ex *Exec, fr *frame, fn *ssa.Function, args []Value) Value {
		ex.yield("atomic")
		f := ptrField(ex, args[0])
		up, _ := (*f).(UnsafePtr)
		cur := up.V
		if cur == nil {
			cur = ex.zero(fn.Signature.Params().At(0).Type())
		}
		eq := ex.valEq(fn.Signature.Params().At(0).Type(), cur, args[1])
		if ex.branch(eq) {
			*f = UnsafePtr{V: args[2]}
			return ex.c.True
		}
		return ex.c.False
	}

	// timers
	intrinsics["time.After"] = func(ex *Exec, fr *frame, fn *ssa.Function, args []Value) Value {
		return ex.newTimer(false, nil, args[0]).ch
	}
	intrinsics["time.Tick"] = func(ex *Exec, fr *frame, fn *ssa.Function, args []Value) Value {
		return ex.newTimer(true, nil, args[0]).ch
	}
	mkTimerStruct := func(ex *Exec, t *Timer, typ types.Type) Value {
		// *time.Timer / *time.Ticker : struct{C <-chan Time; ...}; we keep the
		// engine timer in ex.timerOf keyed by the struct pointer
		p := new(Value)
		*p = ex.zero(deref(typ))
		st := (*p).(Struct)
		st[0] = t.ch
		ex.timerOf[p] = t
		return p
	}
	intrinsics["time.NewTimer"] = func(ex *Exec, fr *frame, fn *ssa.Function, args []Value) Value {
		return mkTimerStruct(ex, ex.newTimer(false, nil, args[0]), fn.Signature.Results().At(0).Type())
	}
	intrinsics["time.NewTicker"] = func(ex *Exec, fr *frame, fn *ssa.Function, args []Value) Value {
		return mkTimerStruct(ex, ex.newTimer(true, nil, args[0]), fn.Signature.Results().At(0).Type())
	}
	intrinsics["time.AfterFunc"] = func(ex *Exec, fr *frame, fn *ssa.Function, args []Value) Value {
		t := ex.newTimer(false, args[1], args[0])
		p := new(Value)
		*p = ex.zero(deref(fn.Signature.Results().At(0).Type()))
		ex.timerOf[p] = t
		return p
	}
	stop := func(ex *Exec, fr *frame, fn *ssa.Function, args []Value) Value {
		p := args[0].(*Value)
		t := ex.timerOf[p]
		was := false
		if t != nil {
			was = t.active
			t.active = false
		}
		if fn.Signature.Results().Len() == 1 {
			return ex.c.Bool(was)
		}
		return nil
	}
	intrinsics["(*time.Timer).Stop"] = stop
	intrinsics["(*time.Ticker).Stop"] = stop
	reset := func(ex *Exec, fr *frame, fn *ssa.Function, args []Value) Value {
		p := args[0].(*Value)
		t := ex.timerOf[p]
		was := false
		if t != nil {
			was = t.active
			t.active = true
			if dt, ok := args[1].(*T); ok {
				if k, isC := dt.ConstS(); isC && k > 0 {
					t.deadline, t.period = ex.sched.vnow+k, k
				}
			}
		}
		if fn.Signature.Results().Len() == 1 {
			return ex.c.Bool(was)
		}
		return nil
	}
	intrinsics["(*time.Timer).Reset"] = reset
	intrinsics["(*time.Ticker).Reset"] = reset
}


// mapAccessCheck is the data-race obligation on Go maps ("fatal error: concurrent map writes / read and map
// write" in the real runtime): an access conflicts with an earlier access of another goroutine (one of them a
// write) when that goroutine has performed no synchronisation operation at all since its access - it is still
// inside the same synchronisation-free region, so nothing orders the two accesses. This under-approximates the
// happens-before relation's complement (no false alarm: every real ordering goes through a synchronisation
// operation of the earlier goroutine after its access) and needs call-boundary preemption to be exposed.
func (ex *Exec) mapAccessCheck(m *MapV, write bool) {
	if m == nil || !m.tracked || ex.sched == nil || ex.curG == nil || ex.initMode > 0 {
		return
	}
	if ex.h.PreemptCalls != "" {
		ex.yield("call (map access)") // an access to a map of the code under test is a preemption point, not a synchronisation
	}
	cur := ex.curG
	conflict := func(a *mapAccess) bool {
		return a != nil && a.g != cur && !a.g.done && a.g.syncEpoch == a.epoch
	}
	where := ex.siteForViolation()
	if conflict(m.lastW) {
		ex.raceFound(m.lastW, "write", where, write)
	}
	if write {
		for _, r := range m.lastR {
			if conflict(r) {
				ex.raceFound(r, "read", where, write)
			}
		}
		m.lastW = &mapAccess{g: cur, epoch: cur.syncEpoch, where: where}
	} else {
		if m.lastR == nil {
			m.lastR = map[int]*mapAccess{}
		}
		m.lastR[cur.id] = &mapAccess{g: cur, epoch: cur.syncEpoch, where: where}
	}
}

func (ex *Exec) raceFound(prev *mapAccess, prevKind, where string, write bool) {
	kind := "read"
	if write {
		kind = "write"
	}
	ex.ensureModel()
	ex.res.Obligations++
	ex.violation("data-race", fmt.Sprintf("concurrent map %s in %s and map %s in %s with no synchronisation in between (goroutines %s / %s)",
		prevKind, shortFn(prev.where), kind, shortFn(where), shortFn(prev.g.fnName), shortFn(ex.curG.fnName)))
}
