package main

import (
	"encoding/json"
	"flag"
	"fmt"
	"os"
	"runtime"
	"runtime/debug"
	"runtime/pprof"
	"strings"
	"sync"
	"time"
)

var pathSem chan struct{}

func main() {
	opts := &Options{}
	var prop, only, out, tier string
	var wallSec int
	flag.StringVar(&opts.repo, "repo", "/repo", "repository root")
	flag.StringVar(&opts.harnessDir, "harness", "/verif/harness", "harness tree")
	flag.StringVar(&opts.symDir, "sym", "/verif/sym", "sym package dir")
	flag.StringVar(&prop, "prop", "", "property id (e.g. C13)")
	flag.StringVar(&only, "only", "", "comma-separated harness names (default: all of the property)")
	flag.StringVar(&out, "out", "", "result JSON file")
	flag.StringVar(&tier, "tier", "quick", "quick|thorough")
	flag.IntVar(&opts.workers, "workers", runtime.NumCPU(), "parallel workers")
	flag.IntVar(&opts.timeoutMs, "timeout", 30000, "solver timeout per query (ms)")
	flag.StringVar(&opts.backend, "solver", "z3-new", "z3|z3-new|cvc5")
	flag.BoolVar(&opts.verbose, "v", false, "verbose")
	flag.IntVar(&wallSec, "wall", 0, "wall budget per harness in seconds (0 = none)")
	flag.Int64Var(&opts.seed, "seed", 0, "seed")
	var cpuprof string
	flag.StringVar(&cpuprof, "cpuprofile", "", "write a CPU profile")
	flag.Parse()
	debug.SetGCPercent(400)
	if cpuprof != "" {
		f, _ := os.Create(cpuprof)
		pprof.StartCPUProfile(f)
		defer pprof.StopCPUProfile()
	}
	if tier == "thorough" {
		opts.tier = 1
	}
	opts.wallBudget = time.Duration(wallSec) * time.Second
	t0 := time.Now()
	prog, pkgs, err := loadProgram(opts)
	if err != nil {
		fmt.Fprintln(os.Stderr, "load failed:", err)
		os.Exit(3)
	}
	loadSec := time.Since(t0).Seconds()
	loadGlobalStubs(prog, opts.harnessDir)
	hs := findHarnesses(prog, pkgs, prop, opts.tier)
	if only != "" {
		want := map[string]bool{}
		for _, n := range strings.Split(only, ",") {
			want[n] = true
		}
		var f []*Harness
		for _, h := range hs {
			if want[h.Name] {
				f = append(f, h)
			}
		}
		hs = f
	}
	if len(hs) == 0 {
		fmt.Fprintln(os.Stderr, "no harness found for", prop)
		os.Exit(3)
	}
	results := make([]*HarnessResult, len(hs))
	pathSem = make(chan struct{}, opts.workers)
	var wg sync.WaitGroup
	for i, h := range hs {
		wg.Add(1)
		go func(i int, h *Harness) {
			defer wg.Done()
			results[i] = explore(prog, h, opts)
		}(i, h)
	}
	wg.Wait()
	for _, r := range results {
		fmt.Fprintf(os.Stderr, "%-44s %-12s paths=%d ok=%d infeasible=%d oblig=%d/%d queries=%d solver=%.1fs wall=%.1fs\n",
			r.Name, r.Verdict, r.Paths, r.PathsOK, r.Infeasible, r.Discharged, r.Obligations, r.Queries, r.SolverSec, r.WallSec)
		for _, v := range r.Violations {
			fmt.Fprintf(os.Stderr, "    VIOLATED %s: %s @ %s (x%d)\n", v.Kind, v.Label, v.Site, v.Count)
		}
		for _, s := range r.Inconclusive {
			fmt.Fprintf(os.Stderr, "    INCONCLUSIVE %s\n", s)
		}
		for _, s := range r.Unknown {
			fmt.Fprintf(os.Stderr, "    UNKNOWN %s\n", s)
		}
		for _, s := range r.MissingReach {
			fmt.Fprintf(os.Stderr, "    MISSING-REACH %s\n", s)
		}
	}
	doc := map[string]interface{}{"property": prop, "tier": tier, "load_seconds": loadSec, "solver": opts.backend, "harnesses": results}
	data, _ := json.MarshalIndent(doc, "", " ")
	if out != "" {
		os.WriteFile(out, data, 0o644)
	} else {
		os.Stdout.Write(data)
	}
}
