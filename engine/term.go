package main

// Hash-consed term DAG over Bool, bit-vectors (width <= 64) and float64,
// with constant folding, a printer to SMT-LIB2 and an evaluator.

import (
	"fmt"
	"math"
	"math/bits"
	"sort"
	"strconv"
	"strings"
)

type Kind uint8

const (
	KBool Kind = iota
	KBV
	KFP
)

type Sort struct {
	K Kind
	W int
}

var BoolS = Sort{KBool, 0}
var FPS = Sort{KFP, 64}

func BV(w int) Sort { return Sort{KBV, w} }

func (s Sort) String() string {
	switch s.K {
	case KBool:
		return "Bool"
	case KBV:
		return fmt.Sprintf("(_ BitVec %d)", s.W)
	default:
		return "(_ FloatingPoint 11 53)"
	}
}

type Op uint8

const (
	OConst Op = iota
	OVar
	ONot
	OAnd
	OOr
	OIte
	OEq
	OAdd
	OSub
	OMul
	OUDiv
	OURem
	OSDiv
	OSRem
	OBAnd
	OBOr
	OBXor
	OShl
	OLShr
	OAShr
	OBNot
	OUlt
	OUle
	OSlt
	OSle
	OExtract
	OZExt
	OSExt
	OConcat
	OUF
	OFAdd
	OFSub
	OFMul
	OFDiv
	OFNeg
	OFLt
	OFLe
	OFEq
	OFFromS // signed bv -> fp (RNE)
	OFFromU
	OFToS // fp -> signed bv of width W (RTZ)
	OFToU
	OFFromBits // reinterpret BV64 as fp
	OFIsNaN
)

var opNames = map[Op]string{
	ONot: "not", OAnd: "and", OOr: "or", OIte: "ite", OEq: "=",
	OAdd: "bvadd", OSub: "bvsub", OMul: "bvmul", OUDiv: "bvudiv", OURem: "bvurem", OSDiv: "bvsdiv", OSRem: "bvsrem",
	OBAnd: "bvand", OBOr: "bvor", OBXor: "bvxor", OShl: "bvshl", OLShr: "bvlshr", OAShr: "bvashr", OBNot: "bvnot",
	OUlt: "bvult", OUle: "bvule", OSlt: "bvslt", OSle: "bvsle", OConcat: "concat",
	OFAdd: "fp.add RNE", OFSub: "fp.sub RNE", OFMul: "fp.mul RNE", OFDiv: "fp.div RNE", OFNeg: "fp.neg",
	OFLt: "fp.lt", OFLe: "fp.leq", OFEq: "fp.eq", OFIsNaN: "fp.isNaN",
}

type T struct {
	id   int
	op   Op
	s    Sort
	a    []*T
	c    uint64 // constant value (BV: masked; Bool: 0/1; FP: bits)
	name string // var / UF name
	p0   int    // extract hi / ext amount
	p1   int    // extract lo
}

func (t *T) Sort() Sort    { return t.s }
func (t *T) IsConst() bool { return t.op == OConst }
func (t *T) IsTrue() bool  { return t.op == OConst && t.s.K == KBool && t.c == 1 }
func (t *T) IsFalse() bool { return t.op == OConst && t.s.K == KBool && t.c == 0 }

// ConstU returns the unsigned value of a constant BV.
func (t *T) ConstU() (uint64, bool) {
	if t.op == OConst && t.s.K == KBV {
		return t.c, true
	}
	return 0, false
}

// ConstS returns the sign-extended value of a constant BV.
func (t *T) ConstS() (int64, bool) {
	if t.op == OConst && t.s.K == KBV {
		return sext(t.c, t.s.W), true
	}
	return 0, false
}

func mask(w int) uint64 {
	if w >= 64 {
		return ^uint64(0)
	}
	return (uint64(1) << uint(w)) - 1
}

func sext(v uint64, w int) int64 {
	if w >= 64 {
		return int64(v)
	}
	if v&(uint64(1)<<uint(w-1)) != 0 {
		return int64(v | ^mask(w))
	}
	return int64(v)
}

type UFApp struct {
	app *T
	idx *T
}

// Ctx owns a term table. Not safe for concurrent use.
type Ctx struct {
	tab    map[string]*T
	nextID int
	True   *T
	False  *T
	vars   map[string]*T // all variables ever created
	ufs    map[string]bool
	// per-path bookkeeping
	pathVars   []*T
	pathVarSet map[int]bool
	pathUF     []*T
	varBounds  map[string][2]uint64 // per path: unsigned bounds of variables known from the path condition
	consts     map[constKey]*T
}

func NewCtx() *Ctx {
	c := &Ctx{tab: map[string]*T{}, vars: map[string]*T{}, ufs: map[string]bool{}, pathVarSet: map[int]bool{}, varBounds: map[string][2]uint64{}, consts: map[constKey]*T{}}
	c.False = c.mk(&T{op: OConst, s: BoolS, c: 0})
	c.True = c.mk(&T{op: OConst, s: BoolS, c: 1})
	return c
}

func (c *Ctx) ResetPath() {
	c.pathVars = c.pathVars[:0]
	c.pathUF = c.pathUF[:0]
	c.pathVarSet = map[int]bool{}
	c.varBounds = map[string][2]uint64{}
}

func (c *Ctx) key(t *T) string {
	var sb strings.Builder
	sb.WriteByte(byte(t.op))
	sb.WriteByte(byte(t.s.K))
	sb.WriteString(strconv.Itoa(t.s.W))
	sb.WriteByte('|')
	if t.op == OConst {
		sb.WriteString(strconv.FormatUint(t.c, 16))
	}
	if t.name != "" {
		sb.WriteString(t.name)
	}
	if t.p0 != 0 || t.p1 != 0 {
		sb.WriteByte('[')
		sb.WriteString(strconv.Itoa(t.p0))
		sb.WriteByte(',')
		sb.WriteString(strconv.Itoa(t.p1))
	}
	for _, a := range t.a {
		sb.WriteByte(' ')
		sb.WriteString(strconv.Itoa(a.id))
	}
	return sb.String()
}

func (c *Ctx) mk(t *T) *T {
	k := c.key(t)
	if e, ok := c.tab[k]; ok {
		if e.op == OUF && !c.pathVarSet[e.id] {
			c.pathVarSet[e.id] = true
			c.pathUF = append(c.pathUF, e)
		}
		return e
	}
	c.nextID++
	t.id = c.nextID
	c.tab[k] = t
	if t.op == OUF {
		c.pathVarSet[t.id] = true
		c.pathUF = append(c.pathUF, t)
	}
	return t
}

func (c *Ctx) Bool(b bool) *T {
	if b {
		return c.True
	}
	return c.False
}

type constKey struct {
	w int
	v uint64
}

func (c *Ctx) Const(w int, v uint64) *T {
	v &= mask(w)
	k := constKey{w, v}
	if t, ok := c.consts[k]; ok {
		return t
	}
	t := c.mk(&T{op: OConst, s: BV(w), c: v})
	c.consts[k] = t
	return t
}

func (c *Ctx) ConstS(w int, v int64) *T { return c.Const(w, uint64(v)) }

func (c *Ctx) FConst(f float64) *T {
	return c.mk(&T{op: OConst, s: FPS, c: math.Float64bits(f)})
}

func (c *Ctx) Var(name string, s Sort) *T {
	t := c.mk(&T{op: OVar, s: s, name: name})
	c.vars[name] = t
	if !c.pathVarSet[t.id] {
		c.pathVarSet[t.id] = true
		c.pathVars = append(c.pathVars, t)
	}
	return t
}

// UF applies the uninterpreted function name : BV64 -> BV8.
func (c *Ctx) UF(name string, idx *T) *T {
	c.ufs[name] = true
	return c.mk(&T{op: OUF, s: BV(8), name: name, a: []*T{idx}})
}

// ---------- Boolean ----------

func (c *Ctx) Not(x *T) *T {
	if x.op == OConst {
		return c.Bool(x.c == 0)
	}
	if x.op == ONot {
		return x.a[0]
	}
	return c.mk(&T{op: ONot, s: BoolS, a: []*T{x}})
}

func (c *Ctx) And(xs ...*T) *T {
	var out []*T
	seen := map[int]bool{}
	for _, x := range xs {
		if x.IsFalse() {
			return c.False
		}
		if x.IsTrue() {
			continue
		}
		if x.op == OAnd {
			for _, y := range x.a {
				if !seen[y.id] {
					seen[y.id] = true
					out = append(out, y)
				}
			}
			continue
		}
		if !seen[x.id] {
			seen[x.id] = true
			out = append(out, x)
		}
	}
	for _, x := range out {
		if x.op == ONot && seen[x.a[0].id] {
			return c.False
		}
	}
	if len(out) == 0 {
		return c.True
	}
	if len(out) == 1 {
		return out[0]
	}
	return c.mk(&T{op: OAnd, s: BoolS, a: out})
}

func (c *Ctx) Or(xs ...*T) *T {
	var out []*T
	seen := map[int]bool{}
	for _, x := range xs {
		if x.IsTrue() {
			return c.True
		}
		if x.IsFalse() {
			continue
		}
		if x.op == OOr {
			for _, y := range x.a {
				if !seen[y.id] {
					seen[y.id] = true
					out = append(out, y)
				}
			}
			continue
		}
		if !seen[x.id] {
			seen[x.id] = true
			out = append(out, x)
		}
	}
	for _, x := range out {
		if x.op == ONot && seen[x.a[0].id] {
			return c.True
		}
	}
	if len(out) == 0 {
		return c.False
	}
	if len(out) == 1 {
		return out[0]
	}
	return c.mk(&T{op: OOr, s: BoolS, a: out})
}

func (c *Ctx) Implies(a, b *T) *T { return c.Or(c.Not(a), b) }

func (c *Ctx) Ite(cond, x, y *T) *T {
	if cond.IsTrue() {
		return x
	}
	if cond.IsFalse() {
		return y
	}
	if x == y {
		return x
	}
	if x.s != y.s {
		panic(fmt.Sprintf("ite sort mismatch %v %v", x.s, y.s))
	}
	if x.s.K == KBool {
		if x.IsTrue() && y.IsFalse() {
			return cond
		}
		if x.IsFalse() && y.IsTrue() {
			return c.Not(cond)
		}
		if x.IsTrue() {
			return c.Or(cond, y)
		}
		if x.IsFalse() {
			return c.And(c.Not(cond), y)
		}
		if y.IsTrue() {
			return c.Or(c.Not(cond), x)
		}
		if y.IsFalse() {
			return c.And(cond, x)
		}
	}
	if cond.op == ONot {
		return c.Ite(cond.a[0], y, x)
	}
	// ite(c, a, ite(c, b, d)) = ite(c, a, d)
	if y.op == OIte && y.a[0] == cond {
		return c.Ite(cond, x, y.a[2])
	}
	if x.op == OIte && x.a[0] == cond {
		return c.Ite(cond, x.a[1], y)
	}
	return c.mk(&T{op: OIte, s: x.s, a: []*T{cond, x, y}})
}

func (c *Ctx) Eq(x, y *T) *T {
	if x == y {
		if x.s.K == KFP {
			// NaN != NaN, keep structural for FP handled by FEq; Eq on FP is bitwise-ish (SMT =)
		}
		return c.True
	}
	if x.s != y.s {
		panic(fmt.Sprintf("eq sort mismatch %v %v", x.s, y.s))
	}
	if x.op == OConst && y.op == OConst {
		return c.Bool(x.c == y.c)
	}
	if x.s.K == KBV && (x.op == OAdd || y.op == OAdd || x.op == OMul || y.op == OMul) {
		if k, ok := c.linDiff(x, y); ok {
			return c.Bool(k == 0)
		}
	}
	if x.op == OConst {
		x, y = y, x
	}
	if x.s.K == KBool {
		if y.IsTrue() {
			return x
		}
		if y.IsFalse() {
			return c.Not(x)
		}
	}
	if y.op == OConst {
		// ite(c,k1,k2) == k
		if x.op == OIte && x.a[1].op == OConst && x.a[2].op == OConst {
			e1 := x.a[1].c == y.c
			e2 := x.a[2].c == y.c
			switch {
			case e1 && e2:
				return c.True
			case e1:
				return x.a[0]
			case e2:
				return c.Not(x.a[0])
			default:
				return c.False
			}
		}
		if x.op == OIte && (x.a[1].op == OConst || x.a[2].op == OConst) {
			return c.Ite(x.a[0], c.Eq(x.a[1], y), c.Eq(x.a[2], y))
		}
		// zext(v) == k
		if x.op == OZExt {
			inner := x.a[0]
			if y.c > mask(inner.s.W) {
				return c.False
			}
			return c.Eq(inner, c.Const(inner.s.W, y.c))
		}
		// (sum + k1) == k2  -> sum == k2-k1
		if x.op == OAdd && x.a[len(x.a)-1].op == OConst {
			return c.Eq(c.Sub(x, x.a[len(x.a)-1]), c.Const(x.s.W, y.c-x.a[len(x.a)-1].c))
		}
	}
	if x.id > y.id {
		x, y = y, x
	}
	return c.mk(&T{op: OEq, s: BoolS, a: []*T{x, y}})
}

func (c *Ctx) Ne(x, y *T) *T { return c.Not(c.Eq(x, y)) }

// ---------- bit-vector arithmetic ----------

func (c *Ctx) bin(op Op, x, y *T) *T {
	if x.s != y.s || x.s.K != KBV {
		panic(fmt.Sprintf("bv op %v sort mismatch %v %v", opNames[op], x.s, y.s))
	}
	return c.mk(&T{op: op, s: x.s, a: []*T{x, y}})
}

// ---- linear normal form -------------------------------------------------
// Sums are kept as n-ary OAdd nodes: atoms (each possibly OMul(atom, const))
// sorted by id, constant last. Semantically equal linear expressions over the
// same atoms are then syntactically identical, which lets comparisons between
// symbolic offsets fold without the solver.

type linTerm struct {
	t *T
	k uint64
}

// linOf decomposes x into sum of k_i*t_i + c (all mod 2^w).
func (c *Ctx) linOf(x *T, scale uint64, acc map[int]*linTerm, cst *uint64) {
	switch x.op {
	case OConst:
		*cst += scale * x.c
		return
	case OAdd:
		for _, a := range x.a {
			c.linOf(a, scale, acc, cst)
		}
		return
	case OSub:
		c.linOf(x.a[0], scale, acc, cst)
		c.linOf(x.a[1], -scale, acc, cst)
		return
	case OMul:
		if x.a[1].op == OConst {
			c.linOf(x.a[0], scale*x.a[1].c, acc, cst)
			return
		}
	}
	if e, ok := acc[x.id]; ok {
		e.k += scale
	} else {
		acc[x.id] = &linTerm{x, scale}
	}
}

func (c *Ctx) fromLin(w int, acc map[int]*linTerm, cst uint64) *T {
	ids := make([]int, 0, len(acc))
	for id, e := range acc {
		if e.k&mask(w) != 0 {
			ids = append(ids, id)
		}
	}
	sort.Ints(ids)
	var args []*T
	for _, id := range ids {
		e := acc[id]
		k := e.k & mask(w)
		if k == 1 {
			args = append(args, e.t)
		} else {
			args = append(args, c.mk(&T{op: OMul, s: BV(w), a: []*T{e.t, c.Const(w, k)}}))
		}
	}
	cst &= mask(w)
	if len(args) == 0 {
		return c.Const(w, cst)
	}
	if cst != 0 {
		args = append(args, c.Const(w, cst))
	}
	if len(args) == 1 {
		return args[0]
	}
	return c.mk(&T{op: OAdd, s: BV(w), a: args})
}

func (c *Ctx) Add(x, y *T) *T {
	w := x.s.W
	if x.s != y.s || x.s.K != KBV {
		panic(fmt.Sprintf("bvadd sort mismatch %v %v", x.s, y.s))
	}
	if x.op == OConst && y.op == OConst {
		return c.Const(w, x.c+y.c)
	}
	if y.op == OConst && y.c == 0 {
		return x
	}
	if x.op == OConst && x.c == 0 {
		return y
	}
	// ite(c,k1,k2) + k stays an ite of constants
	if y.op == OConst && x.op == OIte && x.a[1].op == OConst && x.a[2].op == OConst {
		return c.Ite(x.a[0], c.Const(w, x.a[1].c+y.c), c.Const(w, x.a[2].c+y.c))
	}
	acc := map[int]*linTerm{}
	var cst uint64
	c.linOf(x, 1, acc, &cst)
	c.linOf(y, 1, acc, &cst)
	return c.fromLin(w, acc, cst)
}

func (c *Ctx) Sub(x, y *T) *T {
	w := x.s.W
	if x.s != y.s || x.s.K != KBV {
		panic(fmt.Sprintf("bvsub sort mismatch %v %v", x.s, y.s))
	}
	if x == y {
		return c.Const(w, 0)
	}
	if y.op == OConst && y.c == 0 {
		return x
	}
	if y.op == OConst && x.op == OIte && x.a[1].op == OConst && x.a[2].op == OConst {
		return c.Ite(x.a[0], c.Const(w, x.a[1].c-y.c), c.Const(w, x.a[2].c-y.c))
	}
	acc := map[int]*linTerm{}
	var cst uint64
	c.linOf(x, 1, acc, &cst)
	c.linOf(y, ^uint64(0), acc, &cst)
	return c.fromLin(w, acc, cst)
}

func (c *Ctx) Neg(x *T) *T {
	return c.Sub(c.Const(x.s.W, 0), x)
}

// linDiff returns (k, true) when x - y is the constant k.
func (c *Ctx) linDiff(x, y *T) (uint64, bool) {
	if x.s.K != KBV {
		return 0, false
	}
	d := c.Sub(x, y)
	if d.op == OConst {
		return d.c, true
	}
	return 0, false
}

func (c *Ctx) Mul(x, y *T) *T {
	w := x.s.W
	if x.op == OConst && y.op == OConst {
		return c.Const(w, x.c*y.c)
	}
	if x.op == OConst {
		x, y = y, x
	}
	if y.op == OConst {
		if y.c == 0 {
			return y
		}
		if y.c == 1 {
			return x
		}
		if x.op == OIte && x.a[1].op == OConst && x.a[2].op == OConst {
			return c.Ite(x.a[0], c.Const(w, x.a[1].c*y.c), c.Const(w, x.a[2].c*y.c))
		}
		// distribute over sums so that the result stays in linear normal form
		acc := map[int]*linTerm{}
		var cst uint64
		c.linOf(x, y.c, acc, &cst)
		return c.fromLin(w, acc, cst)
	}
	if x.id > y.id {
		x, y = y, x
	}
	return c.bin(OMul, x, y)
}

func (c *Ctx) UDiv(x, y *T) *T {
	w := x.s.W
	if x.op == OConst && y.op == OConst {
		if y.c == 0 {
			return c.Const(w, mask(w))
		}
		return c.Const(w, x.c/y.c)
	}
	if y.op == OConst && y.c == 1 {
		return x
	}
	return c.bin(OUDiv, x, y)
}

func (c *Ctx) URem(x, y *T) *T {
	w := x.s.W
	if x.op == OConst && y.op == OConst {
		if y.c == 0 {
			return x
		}
		return c.Const(w, x.c%y.c)
	}
	return c.bin(OURem, x, y)
}

func (c *Ctx) SDiv(x, y *T) *T {
	w := x.s.W
	if x.op == OConst && y.op == OConst {
		a, b := sext(x.c, w), sext(y.c, w)
		if b == 0 {
			if a >= 0 {
				return c.Const(w, mask(w))
			}
			return c.Const(w, 1)
		}
		if b == -1 {
			return c.Const(w, uint64(-a))
		}
		return c.Const(w, uint64(a/b))
	}
	if y.op == OConst && y.c == 1 {
		return x
	}
	return c.bin(OSDiv, x, y)
}

func (c *Ctx) SRem(x, y *T) *T {
	w := x.s.W
	if x.op == OConst && y.op == OConst {
		a, b := sext(x.c, w), sext(y.c, w)
		if b == 0 {
			return x
		}
		if b == -1 {
			return c.Const(w, 0)
		}
		return c.Const(w, uint64(a%b))
	}
	return c.bin(OSRem, x, y)
}

func (c *Ctx) BAnd(x, y *T) *T {
	w := x.s.W
	if x.op == OConst && y.op == OConst {
		return c.Const(w, x.c&y.c)
	}
	if x.op == OConst {
		x, y = y, x
	}
	if y.op == OConst {
		if y.c == 0 {
			return y
		}
		if y.c == mask(w) {
			return x
		}
		// zext(v) & k where k covers v entirely
		if x.op == OZExt && y.c&mask(x.a[0].s.W) == mask(x.a[0].s.W) {
			return x
		}
	}
	if x == y {
		return x
	}
	return c.bin(OBAnd, x, y)
}

func (c *Ctx) BOr(x, y *T) *T {
	w := x.s.W
	if x.op == OConst && y.op == OConst {
		return c.Const(w, x.c|y.c)
	}
	if x.op == OConst {
		x, y = y, x
	}
	if y.op == OConst {
		if y.c == 0 {
			return x
		}
		if y.c == mask(w) {
			return y
		}
	}
	if x == y {
		return x
	}
	return c.bin(OBOr, x, y)
}

func (c *Ctx) BXor(x, y *T) *T {
	w := x.s.W
	if x.op == OConst && y.op == OConst {
		return c.Const(w, x.c^y.c)
	}
	if x.op == OConst {
		x, y = y, x
	}
	if y.op == OConst && y.c == 0 {
		return x
	}
	if x == y {
		return c.Const(w, 0)
	}
	return c.bin(OBXor, x, y)
}

func (c *Ctx) BNot(x *T) *T {
	if x.op == OConst {
		return c.Const(x.s.W, ^x.c)
	}
	return c.mk(&T{op: OBNot, s: x.s, a: []*T{x}})
}

// Shl/LShr/AShr follow SMT-LIB semantics (shift >= width gives 0 / sign fill),
// which coincides with Go's semantics for unsigned shift counts of the same width.
func (c *Ctx) Shl(x, y *T) *T {
	w := x.s.W
	if y.op == OConst {
		if y.c == 0 {
			return x
		}
		if y.c >= uint64(w) {
			return c.Const(w, 0)
		}
		if x.op == OConst {
			return c.Const(w, x.c<<y.c)
		}
	}
	return c.bin(OShl, x, y)
}

func (c *Ctx) LShr(x, y *T) *T {
	w := x.s.W
	if y.op == OConst {
		if y.c == 0 {
			return x
		}
		if y.c >= uint64(w) {
			return c.Const(w, 0)
		}
		if x.op == OConst {
			return c.Const(w, x.c>>y.c)
		}
		// zext(v) >> k with k >= width(v) is 0
		if x.op == OZExt && y.c >= uint64(x.a[0].s.W) {
			return c.Const(w, 0)
		}
	}
	return c.bin(OLShr, x, y)
}

func (c *Ctx) AShr(x, y *T) *T {
	w := x.s.W
	if y.op == OConst {
		if y.c == 0 {
			return x
		}
		if x.op == OConst {
			s := y.c
			if s >= uint64(w) {
				s = uint64(w - 1)
			}
			return c.Const(w, uint64(sext(x.c, w)>>s))
		}
	}
	return c.bin(OAShr, x, y)
}

func (c *Ctx) cmp(op Op, x, y *T) *T {
	if x.s != y.s || x.s.K != KBV {
		panic(fmt.Sprintf("cmp %v sort mismatch %v %v", opNames[op], x.s, y.s))
	}
	return c.mk(&T{op: op, s: BoolS, a: []*T{x, y}})
}

// urange returns a conservative unsigned range of x.
func (c *Ctx) urange(x *T) (lo, hi uint64) {
	w := x.s.W
	switch x.op {
	case OConst:
		return x.c, x.c
	case OZExt:
		l, h := c.urange(x.a[0])
		return l, h
	case OIte:
		l1, h1 := c.urange(x.a[1])
		l2, h2 := c.urange(x.a[2])
		if l2 < l1 {
			l1 = l2
		}
		if h2 > h1 {
			h1 = h2
		}
		return l1, h1
	case OBAnd:
		_, h1 := c.urange(x.a[0])
		_, h2 := c.urange(x.a[1])
		if h2 < h1 {
			h1 = h2
		}
		return 0, h1
	case OLShr:
		if k, ok := x.a[1].ConstU(); ok && k < 64 {
			_, h := c.urange(x.a[0])
			return 0, h >> k
		}
	case OVar:
		if b, ok := c.varBounds[x.name]; ok {
			return b[0], b[1]
		}
	case OMul:
		if k, ok := x.a[1].ConstU(); ok {
			l, h := c.urange(x.a[0])
			if hh, hl := bits.Mul64(h, k); hh == 0 && hl <= mask(w)>>1 {
				return l * k, hl
			}
		}
	case OAdd:
		// n-ary sum of atoms with (possibly negative) constant coefficients
		// and a constant; computed in int64 with all magnitudes below 2^60
		if w != 64 {
			break
		}
		const lim = int64(1) << 60
		var lo, hi int64
		okk := true
		for _, a := range x.a {
			var k int64 = 1
			atom := a
			if a.op == OConst {
				v := int64(a.c)
				if v >= lim || v <= -lim {
					okk = false
					break
				}
				lo += v
				hi += v
				continue
			}
			if a.op == OMul && a.a[1].op == OConst {
				k = int64(a.a[1].c)
				atom = a.a[0]
				if k >= 1<<20 || k <= -(1<<20) {
					okk = false
					break
				}
			}
			l, h := c.urange(atom)
			if h >= uint64(lim>>20) {
				okk = false
				break
			}
			if k >= 0 {
				lo += k * int64(l)
				hi += k * int64(h)
			} else {
				lo += k * int64(h)
				hi += k * int64(l)
			}
			if lo <= -lim || hi >= lim {
				okk = false
				break
			}
		}
		if okk && lo >= 0 {
			return uint64(lo), uint64(hi)
		}
	case OURem:
		if k, ok := x.a[1].ConstU(); ok && k > 0 {
			return 0, k - 1
		}
	}
	return 0, mask(w)
}

// cmpByDiff decides x < y (strict) or x <= y when y - x is a constant and
// neither side can wrap (both provably below 2^(w-2)).
func (c *Ctx) cmpByDiff(x, y *T, strict bool) (bool, bool) {
	if x.op != OAdd && y.op != OAdd {
		return false, false
	}
	k, ok := c.linDiff(y, x)
	if !ok {
		return false, false
	}
	_, hx := c.urange(x)
	_, hy := c.urange(y)
	lim := mask(x.s.W) >> 2
	if hx > lim || hy > lim {
		return false, false
	}
	d := sext(k, x.s.W)
	if strict {
		return d > 0, true
	}
	return d >= 0, true
}

func (c *Ctx) Ult(x, y *T) *T {
	if x == y {
		return c.False
	}
	if r, ok := c.cmpByDiff(x, y, true); ok {
		return c.Bool(r)
	}
	if x.op == OConst && y.op == OConst {
		return c.Bool(x.c < y.c)
	}
	if y.op == OConst && y.c == 0 {
		return c.False
	}
	lx, hx := c.urange(x)
	ly, hy := c.urange(y)
	if hx < ly {
		return c.True
	}
	if lx >= hy {
		return c.False
	}
	return c.cmp(OUlt, x, y)
}

func (c *Ctx) Ule(x, y *T) *T {
	if x == y {
		return c.True
	}
	if r, ok := c.cmpByDiff(x, y, false); ok {
		return c.Bool(r)
	}
	if x.op == OConst && y.op == OConst {
		return c.Bool(x.c <= y.c)
	}
	if x.op == OConst && x.c == 0 {
		return c.True
	}
	lx, hx := c.urange(x)
	ly, hy := c.urange(y)
	if hx <= ly {
		return c.True
	}
	if lx > hy {
		return c.False
	}
	return c.cmp(OUle, x, y)
}

// nonNegSmall reports whether x is known to be in [0, 2^(w-1)) so that signed
// and unsigned comparisons agree.
func (c *Ctx) nonNeg(x *T) bool {
	_, h := c.urange(x)
	return h < uint64(1)<<uint(x.s.W-1)
}

func (c *Ctx) Slt(x, y *T) *T {
	if x == y {
		return c.False
	}
	if r, ok := c.cmpByDiff(x, y, true); ok {
		return c.Bool(r)
	}
	if x.op == OConst && y.op == OConst {
		return c.Bool(sext(x.c, x.s.W) < sext(y.c, y.s.W))
	}
	if c.nonNeg(x) && c.nonNeg(y) {
		r := c.Ult(x, y)
		if r.IsConst() {
			return r
		}
	}
	return c.cmp(OSlt, x, y)
}

func (c *Ctx) Sle(x, y *T) *T {
	if x == y {
		return c.True
	}
	if r, ok := c.cmpByDiff(x, y, false); ok {
		return c.Bool(r)
	}
	if x.op == OConst && y.op == OConst {
		return c.Bool(sext(x.c, x.s.W) <= sext(y.c, y.s.W))
	}
	if c.nonNeg(x) && c.nonNeg(y) {
		r := c.Ule(x, y)
		if r.IsConst() {
			return r
		}
	}
	return c.cmp(OSle, x, y)
}

func (c *Ctx) Extract(x *T, hi, lo int) *T {
	w := hi - lo + 1
	if lo == 0 && w == x.s.W {
		return x
	}
	if x.op == OConst {
		return c.Const(w, x.c>>uint(lo))
	}
	if lo == 0 && (x.op == OZExt || x.op == OSExt) {
		iw := x.a[0].s.W
		if w == iw {
			return x.a[0]
		}
		if w < iw {
			return c.Extract(x.a[0], hi, 0)
		}
		if x.op == OZExt {
			return c.ZExt(x.a[0], w)
		}
		return c.SExt(x.a[0], w)
	}
	if x.op == OIte && x.a[1].op == OConst && x.a[2].op == OConst {
		return c.Ite(x.a[0], c.Extract(x.a[1], hi, lo), c.Extract(x.a[2], hi, lo))
	}
	return c.mk(&T{op: OExtract, s: BV(w), a: []*T{x}, p0: hi, p1: lo})
}

// ZExt zero-extends x to width w (w >= x width).
func (c *Ctx) ZExt(x *T, w int) *T {
	if w == x.s.W {
		return x
	}
	if w < x.s.W {
		return c.Extract(x, w-1, 0)
	}
	if x.op == OConst {
		return c.Const(w, x.c)
	}
	if x.op == OZExt {
		return c.ZExt(x.a[0], w)
	}
	if x.op == OIte && x.a[1].op == OConst && x.a[2].op == OConst {
		return c.Ite(x.a[0], c.ZExt(x.a[1], w), c.ZExt(x.a[2], w))
	}
	return c.mk(&T{op: OZExt, s: BV(w), a: []*T{x}, p0: w - x.s.W})
}

func (c *Ctx) SExt(x *T, w int) *T {
	if w == x.s.W {
		return x
	}
	if w < x.s.W {
		return c.Extract(x, w-1, 0)
	}
	if x.op == OConst {
		return c.Const(w, uint64(sext(x.c, x.s.W)))
	}
	if x.op == OZExt {
		return c.ZExt(x.a[0], w)
	}
	if x.op == OIte && x.a[1].op == OConst && x.a[2].op == OConst {
		return c.Ite(x.a[0], c.SExt(x.a[1], w), c.SExt(x.a[2], w))
	}
	return c.mk(&T{op: OSExt, s: BV(w), a: []*T{x}, p0: w - x.s.W})
}

func (c *Ctx) Concat(hi, lo *T) *T {
	w := hi.s.W + lo.s.W
	if hi.op == OConst && lo.op == OConst {
		return c.Const(w, hi.c<<uint(lo.s.W)|lo.c)
	}
	if hi.op == OConst && hi.c == 0 {
		return c.ZExt(lo, w)
	}
	return c.mk(&T{op: OConcat, s: BV(w), a: []*T{hi, lo}})
}

// BoolToBV gives 1/0 of width w.
func (c *Ctx) BoolToBV(b *T, w int) *T { return c.Ite(b, c.Const(w, 1), c.Const(w, 0)) }

// ---------- floating point ----------

func (c *Ctx) fbin(op Op, x, y *T, f func(a, b float64) float64) *T {
	if x.op == OConst && y.op == OConst {
		return c.FConst(f(math.Float64frombits(x.c), math.Float64frombits(y.c)))
	}
	return c.mk(&T{op: op, s: FPS, a: []*T{x, y}})
}
func (c *Ctx) FAdd(x, y *T) *T {
	return c.fbin(OFAdd, x, y, func(a, b float64) float64 { return a + b })
}
func (c *Ctx) FSub(x, y *T) *T {
	return c.fbin(OFSub, x, y, func(a, b float64) float64 { return a - b })
}
func (c *Ctx) FMul(x, y *T) *T {
	return c.fbin(OFMul, x, y, func(a, b float64) float64 { return a * b })
}
func (c *Ctx) FDiv(x, y *T) *T {
	return c.fbin(OFDiv, x, y, func(a, b float64) float64 { return a / b })
}
func (c *Ctx) FNeg(x *T) *T {
	if x.op == OConst {
		return c.FConst(-math.Float64frombits(x.c))
	}
	return c.mk(&T{op: OFNeg, s: FPS, a: []*T{x}})
}
func (c *Ctx) fcmp(op Op, x, y *T, f func(a, b float64) bool) *T {
	if x.op == OConst && y.op == OConst {
		return c.Bool(f(math.Float64frombits(x.c), math.Float64frombits(y.c)))
	}
	return c.mk(&T{op: op, s: BoolS, a: []*T{x, y}})
}
func (c *Ctx) FLt(x, y *T) *T { return c.fcmp(OFLt, x, y, func(a, b float64) bool { return a < b }) }
func (c *Ctx) FLe(x, y *T) *T { return c.fcmp(OFLe, x, y, func(a, b float64) bool { return a <= b }) }
func (c *Ctx) FEq(x, y *T) *T { return c.fcmp(OFEq, x, y, func(a, b float64) bool { return a == b }) }
func (c *Ctx) FFromS(x *T) *T {
	if x.op == OConst {
		return c.FConst(float64(sext(x.c, x.s.W)))
	}
	return c.mk(&T{op: OFFromS, s: FPS, a: []*T{x}})
}
func (c *Ctx) FFromU(x *T) *T {
	if x.op == OConst {
		return c.FConst(float64(x.c))
	}
	return c.mk(&T{op: OFFromU, s: FPS, a: []*T{x}})
}
func (c *Ctx) FToS(x *T, w int) *T {
	if x.op == OConst {
		f := math.Float64frombits(x.c)
		if !math.IsNaN(f) && f > -9.2e18 && f < 9.2e18 {
			return c.ConstS(w, int64(f))
		}
	}
	return c.mk(&T{op: OFToS, s: BV(w), a: []*T{x}, p0: w})
}
func (c *Ctx) FToU(x *T, w int) *T {
	if x.op == OConst {
		f := math.Float64frombits(x.c)
		if !math.IsNaN(f) && f >= 0 && f < 1.8e19 {
			return c.Const(w, uint64(f))
		}
	}
	return c.mk(&T{op: OFToU, s: BV(w), a: []*T{x}, p0: w})
}
func (c *Ctx) FFromBits(x *T) *T {
	if x.op == OConst {
		return c.mk(&T{op: OConst, s: FPS, c: x.c})
	}
	return c.mk(&T{op: OFFromBits, s: FPS, a: []*T{x}})
}
func (c *Ctx) FIsNaN(x *T) *T {
	if x.op == OConst {
		return c.Bool(math.IsNaN(math.Float64frombits(x.c)))
	}
	return c.mk(&T{op: OFIsNaN, s: BoolS, a: []*T{x}})
}

// ---------- printing ----------

func constLit(t *T) string {
	switch t.s.K {
	case KBool:
		if t.c == 1 {
			return "true"
		}
		return "false"
	case KBV:
		if t.s.W%4 == 0 {
			return fmt.Sprintf("#x%0*x", t.s.W/4, t.c)
		}
		return fmt.Sprintf("(_ bv%d %d)", t.c, t.s.W)
	default:
		return fmt.Sprintf("((_ to_fp 11 53) #x%016x)", t.c)
	}
}

func ref(t *T) string {
	switch t.op {
	case OConst:
		return constLit(t)
	case OVar:
		return t.name
	}
	return "t" + strconv.Itoa(t.id)
}

// body prints the defining expression of t in terms of its children's names.
func body(t *T) string {
	var sb strings.Builder
	switch t.op {
	case OExtract:
		fmt.Fprintf(&sb, "((_ extract %d %d) %s)", t.p0, t.p1, ref(t.a[0]))
	case OZExt:
		fmt.Fprintf(&sb, "((_ zero_extend %d) %s)", t.p0, ref(t.a[0]))
	case OSExt:
		fmt.Fprintf(&sb, "((_ sign_extend %d) %s)", t.p0, ref(t.a[0]))
	case OUF:
		fmt.Fprintf(&sb, "(%s %s)", t.name, ref(t.a[0]))
	case OFFromS:
		fmt.Fprintf(&sb, "((_ to_fp 11 53) RNE %s)", ref(t.a[0]))
	case OFFromU:
		fmt.Fprintf(&sb, "((_ to_fp_unsigned 11 53) RNE %s)", ref(t.a[0]))
	case OFToS:
		fmt.Fprintf(&sb, "((_ fp.to_sbv %d) RTZ %s)", t.p0, ref(t.a[0]))
	case OFToU:
		fmt.Fprintf(&sb, "((_ fp.to_ubv %d) RTZ %s)", t.p0, ref(t.a[0]))
	case OFFromBits:
		fmt.Fprintf(&sb, "((_ to_fp 11 53) %s)", ref(t.a[0]))
	case OAdd:
		// n-ary sum printed as nested binary bvadd
		for i := 0; i < len(t.a)-1; i++ {
			sb.WriteString("(bvadd ")
		}
		sb.WriteString(ref(t.a[0]))
		for _, a := range t.a[1:] {
			sb.WriteByte(' ')
			sb.WriteString(ref(a))
			sb.WriteByte(')')
		}
	default:
		sb.WriteByte('(')
		sb.WriteString(opNames[t.op])
		for _, a := range t.a {
			sb.WriteByte(' ')
			sb.WriteString(ref(a))
		}
		sb.WriteByte(')')
	}
	return sb.String()
}

// ---------- evaluation under a model ----------

type Model struct {
	Vars map[string]uint64            // var name -> value (bool 0/1, bv, fp bits)
	UFs  map[string]map[uint64]uint64 // uf name -> idx -> byte
}

func (m *Model) clone() *Model {
	if m == nil {
		return nil
	}
	n := &Model{Vars: map[string]uint64{}, UFs: map[string]map[uint64]uint64{}}
	for k, v := range m.Vars {
		n.Vars[k] = v
	}
	for k, v := range m.UFs {
		mm := map[uint64]uint64{}
		for a, b := range v {
			mm[a] = b
		}
		n.UFs[k] = mm
	}
	return n
}

type Evaluator struct {
	m    *Model
	memo map[int]uint64
}

func NewEvaluator(m *Model) *Evaluator { return &Evaluator{m: m, memo: map[int]uint64{}} }

func (e *Evaluator) Bool(t *T) bool { return e.Eval(t) != 0 }

func (e *Evaluator) Eval(t *T) uint64 {
	if t.op == OConst {
		return t.c
	}
	if v, ok := e.memo[t.id]; ok {
		return v
	}
	v := e.eval(t)
	if t.s.K == KBV {
		v &= mask(t.s.W)
	}
	e.memo[t.id] = v
	return v
}

func b2u(b bool) uint64 {
	if b {
		return 1
	}
	return 0
}

func (e *Evaluator) eval(t *T) uint64 {
	w := t.s.W
	switch t.op {
	case OVar:
		return e.m.Vars[t.name]
	case OUF:
		idx := e.Eval(t.a[0])
		if mm, ok := e.m.UFs[t.name]; ok {
			return mm[idx]
		}
		return 0
	case ONot:
		return b2u(e.Eval(t.a[0]) == 0)
	case OAnd:
		for _, a := range t.a {
			if e.Eval(a) == 0 {
				return 0
			}
		}
		return 1
	case OOr:
		for _, a := range t.a {
			if e.Eval(a) != 0 {
				return 1
			}
		}
		return 0
	case OIte:
		if e.Eval(t.a[0]) != 0 {
			return e.Eval(t.a[1])
		}
		return e.Eval(t.a[2])
	case OEq:
		return b2u(e.Eval(t.a[0]) == e.Eval(t.a[1]))
	}
	var x, y uint64
	if len(t.a) > 0 {
		x = e.Eval(t.a[0])
	}
	if len(t.a) > 1 {
		y = e.Eval(t.a[1])
	}
	aw := 0
	if len(t.a) > 0 {
		aw = t.a[0].s.W
	}
	switch t.op {
	case OAdd:
		sum := uint64(0)
		for _, a := range t.a {
			sum += e.Eval(a)
		}
		return sum
	case OSub:
		return x - y
	case OMul:
		return x * y
	case OUDiv:
		if y == 0 {
			return mask(w)
		}
		return x / y
	case OURem:
		if y == 0 {
			return x
		}
		return x % y
	case OSDiv:
		a, b := sext(x, w), sext(y, w)
		if b == 0 {
			if a >= 0 {
				return mask(w)
			}
			return 1
		}
		if b == -1 {
			return uint64(-a)
		}
		return uint64(a / b)
	case OSRem:
		a, b := sext(x, w), sext(y, w)
		if b == 0 {
			return x
		}
		if b == -1 {
			return 0
		}
		return uint64(a % b)
	case OBAnd:
		return x & y
	case OBOr:
		return x | y
	case OBXor:
		return x ^ y
	case OBNot:
		return ^x
	case OShl:
		if y >= uint64(w) {
			return 0
		}
		return x << y
	case OLShr:
		if y >= uint64(w) {
			return 0
		}
		return x >> y
	case OAShr:
		if y >= uint64(w) {
			y = uint64(w - 1)
		}
		return uint64(sext(x, w) >> y)
	case OUlt:
		return b2u(x < y)
	case OUle:
		return b2u(x <= y)
	case OSlt:
		return b2u(sext(x, aw) < sext(y, aw))
	case OSle:
		return b2u(sext(x, aw) <= sext(y, aw))
	case OExtract:
		return x >> uint(t.p1)
	case OZExt:
		return x
	case OSExt:
		return uint64(sext(x, aw))
	case OConcat:
		return x<<uint(t.a[1].s.W) | y
	case OFAdd:
		return math.Float64bits(math.Float64frombits(x) + math.Float64frombits(y))
	case OFSub:
		return math.Float64bits(math.Float64frombits(x) - math.Float64frombits(y))
	case OFMul:
		return math.Float64bits(math.Float64frombits(x) * math.Float64frombits(y))
	case OFDiv:
		return math.Float64bits(math.Float64frombits(x) / math.Float64frombits(y))
	case OFNeg:
		return math.Float64bits(-math.Float64frombits(x))
	case OFLt:
		return b2u(math.Float64frombits(x) < math.Float64frombits(y))
	case OFLe:
		return b2u(math.Float64frombits(x) <= math.Float64frombits(y))
	case OFEq:
		return b2u(math.Float64frombits(x) == math.Float64frombits(y))
	case OFFromS:
		return math.Float64bits(float64(sext(x, aw)))
	case OFFromU:
		return math.Float64bits(float64(x))
	case OFToS:
		return uint64(int64(math.Float64frombits(x)))
	case OFToU:
		return uint64(math.Float64frombits(x))
	case OFFromBits:
		return x
	case OFIsNaN:
		return b2u(math.IsNaN(math.Float64frombits(x)))
	}
	panic(fmt.Sprintf("eval: unhandled op %d", t.op))
}

// collectVars returns the variables occurring in t (sorted by name).
func collectVars(ts []*T) []*T {
	seen := map[int]bool{}
	var out []*T
	var walk func(t *T)
	walk = func(t *T) {
		if seen[t.id] {
			return
		}
		seen[t.id] = true
		if t.op == OVar {
			out = append(out, t)
		}
		for _, a := range t.a {
			walk(a)
		}
	}
	for _, t := range ts {
		walk(t)
	}
	sort.Slice(out, func(i, j int) bool { return out[i].name < out[j].name })
	return out
}
