package main

// A persistent SMT solver process (z3 -in by default). Terms are emitted
// lazily as global define-funs; the asserted stack mirrors a prefix of the
// path condition so consecutive queries are incremental.

import (
	"bufio"
	"fmt"
	"io"
	"os"
	"os/exec"
	"strconv"
	"strings"
	"time"
)

type Result int

const (
	Unsat Result = iota
	Sat
	Unknown
)

func (r Result) String() string { return [...]string{"unsat", "sat", "unknown"}[r] }

type Solver struct {
	ctx       *Ctx
	backend   string
	cmd       *exec.Cmd
	in        io.WriteCloser
	out       *bufio.Reader
	emitted   map[int]bool
	declVars  map[string]bool
	declUFs   map[string]bool
	stack     []*T
	timeoutMs int
	Queries   int
	Seconds   float64
	Unknowns  int
	Errors    int
	log       *os.File
	dead      bool
}

func backendArgs(backend string, timeoutMs int) (string, []string) {
	switch backend {
	case "z3-new":
		return "z3-new", []string{"-in"}
	case "cvc5":
		return "cvc5", []string{"--incremental", "--produce-models", "--lang=smt2", fmt.Sprintf("--tlimit-per=%d", timeoutMs)}
	default:
		return "z3", []string{"-in"}
	}
}

func NewSolver(ctx *Ctx, backend string, timeoutMs int) *Solver {
	s := &Solver{ctx: ctx, backend: backend, timeoutMs: timeoutMs}
	if p := os.Getenv("SYMGO_SMTLOG"); p != "" {
		s.log, _ = os.Create(fmt.Sprintf("%s.%d.%p.smt2", p, os.Getpid(), s))
	}
	s.start()
	return s
}

func (s *Solver) start() {
	name, args := backendArgs(s.backend, s.timeoutMs)
	s.cmd = exec.Command(name, args...)
	s.in, _ = s.cmd.StdinPipe()
	o, _ := s.cmd.StdoutPipe()
	s.cmd.Stderr = nil
	s.out = bufio.NewReaderSize(o, 1<<20)
	if err := s.cmd.Start(); err != nil {
		panic("cannot start solver: " + err.Error())
	}
	s.emitted = map[int]bool{}
	s.declVars = map[string]bool{}
	s.declUFs = map[string]bool{}
	s.stack = nil
	s.dead = false
	if s.backend == "cvc5" {
		s.send("(set-logic ALL)")
		s.send("(set-option :global-declarations true)")
	} else {
		s.send("(set-option :global-decls true)")
		s.send(fmt.Sprintf("(set-option :timeout %d)", s.timeoutMs))
	}
	s.send("(set-option :produce-models true)")
}

func (s *Solver) Close() {
	if s.cmd != nil && s.cmd.Process != nil {
		s.in.Close()
		s.cmd.Process.Kill()
		s.cmd.Wait()
	}
	if s.log != nil {
		s.log.Close()
	}
}

func (s *Solver) restart() {
	s.Close()
	s.start()
}

func (s *Solver) send(line string) {
	if s.log != nil {
		fmt.Fprintln(s.log, line)
	}
	if _, err := io.WriteString(s.in, line+"\n"); err != nil {
		s.dead = true
	}
}

// define makes sure t and everything below it is defined in the solver.
func (s *Solver) define(t *T) {
	if t.op == OConst || s.emitted[t.id] {
		return
	}
	// iterative post-order to avoid deep recursion on long ite chains
	type fr struct {
		t *T
		i int
	}
	st := []fr{{t, 0}}
	for len(st) > 0 {
		f := &st[len(st)-1]
		if f.t.op == OConst || s.emitted[f.t.id] {
			st = st[:len(st)-1]
			continue
		}
		if f.i < len(f.t.a) {
			ch := f.t.a[f.i]
			f.i++
			if ch.op != OConst && !s.emitted[ch.id] {
				st = append(st, fr{ch, 0})
			}
			continue
		}
		n := f.t
		st = st[:len(st)-1]
		s.emitted[n.id] = true
		switch n.op {
		case OVar:
			if !s.declVars[n.name] {
				s.declVars[n.name] = true
				s.send(fmt.Sprintf("(declare-const %s %s)", n.name, n.s))
			}
		case OUF:
			if !s.declUFs[n.name] {
				s.declUFs[n.name] = true
				s.send(fmt.Sprintf("(declare-fun %s ((_ BitVec 64)) (_ BitVec 8))", n.name))
			}
			s.send(fmt.Sprintf("(define-fun t%d () %s %s)", n.id, n.s, body(n)))
		default:
			s.send(fmt.Sprintf("(define-fun t%d () %s %s)", n.id, n.s, body(n)))
		}
	}
}

func (s *Solver) readLine() (string, bool) {
	line, err := s.out.ReadString('\n')
	if err != nil {
		s.dead = true
		return "", false
	}
	return strings.TrimSpace(line), true
}

// readSexp reads one balanced s-expression (possibly spanning lines).
func (s *Solver) readSexp() (string, bool) {
	var sb strings.Builder
	depth := 0
	started := false
	for {
		line, err := s.out.ReadString('\n')
		if err != nil {
			s.dead = true
			return sb.String(), false
		}
		inStr := false
		for _, ch := range line {
			if ch == '"' {
				inStr = !inStr
			}
			if inStr {
				continue
			}
			if ch == '(' {
				depth++
				started = true
			} else if ch == ')' {
				depth--
			}
		}
		sb.WriteString(line)
		if started && depth <= 0 {
			return sb.String(), true
		}
		if !started && strings.TrimSpace(line) != "" {
			return sb.String(), true
		}
	}
}

func (s *Solver) syncStack(pc []*T) {
	k := 0
	for k < len(s.stack) && k < len(pc) && s.stack[k] == pc[k] {
		k++
	}
	if n := len(s.stack) - k; n > 0 {
		s.send(fmt.Sprintf("(pop %d)", n))
		s.stack = s.stack[:k]
	}
	for _, t := range pc[k:] {
		s.define(t)
		s.send("(push 1)")
		s.send("(assert " + ref(t) + ")")
		s.stack = append(s.stack, t)
	}
}

// Check decides pc ∧ extra. When wantModel is set and the answer is sat, a
// model over the context's current path variables is returned.
func (s *Solver) Check(pc []*T, extra *T, wantModel bool) (Result, *Model) {
	if s.dead {
		s.restart()
	}
	t0 := time.Now()
	defer func() { s.Seconds += time.Since(t0).Seconds(); s.Queries++ }()
	s.syncStack(pc)
	if extra != nil {
		s.define(extra)
		s.send("(push 1)")
		s.send("(assert " + ref(extra) + ")")
	}
	s.send("(check-sat)")
	res := Unknown
	sawErr := false
	for {
		line, ok := s.readLine()
		if !ok {
			s.Errors++
			s.restart()
			return Unknown, nil
		}
		if line == "" {
			continue
		}
		if strings.HasPrefix(line, "(error") {
			s.Errors++
			fmt.Fprintln(os.Stderr, "solver error:", line)
			sawErr = true
			// keep reading until the actual answer arrives
			continue
		}
		switch line {
		case "sat":
			res = Sat
		case "unsat":
			res = Unsat
		case "unknown", "timeout":
			res = Unknown
		default:
			fmt.Fprintln(os.Stderr, "solver said:", line)
			continue
		}
		break
	}
	if sawErr {
		// an (error line before the answer makes the answer unreliable
		res = Unknown
	}
	var model *Model
	if res == Sat && wantModel {
		model = s.getModel()
		if model == nil {
			res = Unknown
		}
	}
	if res == Unknown {
		s.Unknowns++
	}
	if extra != nil {
		s.send("(pop 1)")
	}
	return res, model
}

func (s *Solver) getModel() *Model {
	m := &Model{Vars: map[string]uint64{}, UFs: map[string]map[uint64]uint64{}}
	var names []string
	var kinds []*T
	for _, v := range s.ctx.pathVars {
		if s.declVars[v.name] {
			names = append(names, v.name)
			kinds = append(kinds, v)
		}
	}
	type ufq struct{ app *T }
	var ufs []*T
	for _, u := range s.ctx.pathUF {
		if s.emitted[u.id] {
			ufs = append(ufs, u)
			names = append(names, ref(u))
			kinds = append(kinds, u)
			names = append(names, ref(u.a[0]))
			kinds = append(kinds, u.a[0])
		}
	}
	if len(names) == 0 {
		return m
	}
	// query in batches
	vals := make([]uint64, len(names))
	const batch = 400
	for i := 0; i < len(names); i += batch {
		j := i + batch
		if j > len(names) {
			j = len(names)
		}
		s.send("(get-value (" + strings.Join(names[i:j], " ") + "))")
		txt, ok := s.readSexp()
		if !ok || strings.HasPrefix(strings.TrimSpace(txt), "(error") {
			s.Errors++
			fmt.Fprintln(os.Stderr, "get-value failed:", txt)
			return nil
		}
		pairs, err := parsePairs(txt)
		if err != nil || len(pairs) != j-i {
			s.Errors++
			fmt.Fprintln(os.Stderr, "get-value parse failed:", err, txt)
			return nil
		}
		for k, p := range pairs {
			vals[i+k] = p
		}
	}
	for i, t := range kinds {
		if t.op == OVar {
			m.Vars[t.name] = vals[i]
		}
	}
	// UF applications: (app, idx) pairs follow each other
	for i := 0; i < len(kinds); i++ {
		if kinds[i].op == OUF {
			app := kinds[i]
			val := vals[i]
			idx := vals[i+1]
			mm := m.UFs[app.name]
			if mm == nil {
				mm = map[uint64]uint64{}
				m.UFs[app.name] = mm
			}
			mm[idx] = val
			i++
		}
	}
	return m
}

// ---- s-expression parsing of get-value answers ----

type sx struct {
	atom string
	list []*sx
}

func parseSx(s string, i int) (*sx, int, error) {
	for i < len(s) && (s[i] == ' ' || s[i] == '\n' || s[i] == '\t' || s[i] == '\r') {
		i++
	}
	if i >= len(s) {
		return nil, i, fmt.Errorf("eof")
	}
	if s[i] == '(' {
		i++
		n := &sx{list: []*sx{}}
		for {
			for i < len(s) && (s[i] == ' ' || s[i] == '\n' || s[i] == '\t' || s[i] == '\r') {
				i++
			}
			if i >= len(s) {
				return nil, i, fmt.Errorf("eof in list")
			}
			if s[i] == ')' {
				return n, i + 1, nil
			}
			ch, j, err := parseSx(s, i)
			if err != nil {
				return nil, j, err
			}
			n.list = append(n.list, ch)
			i = j
		}
	}
	j := i
	for j < len(s) && s[j] != ' ' && s[j] != '\n' && s[j] != ')' && s[j] != '(' && s[j] != '\t' && s[j] != '\r' {
		j++
	}
	return &sx{atom: s[i:j]}, j, nil
}

func parsePairs(txt string) ([]uint64, error) {
	n, _, err := parseSx(txt, 0)
	if err != nil {
		return nil, err
	}
	var out []uint64
	for _, p := range n.list {
		if len(p.list) != 2 {
			return nil, fmt.Errorf("bad pair")
		}
		v, err := sxValue(p.list[1])
		if err != nil {
			return nil, err
		}
		out = append(out, v)
	}
	return out, nil
}

func sxValue(n *sx) (uint64, error) {
	if n.list == nil {
		a := n.atom
		switch {
		case a == "true":
			return 1, nil
		case a == "false":
			return 0, nil
		case strings.HasPrefix(a, "#x"):
			return strconv.ParseUint(a[2:], 16, 64)
		case strings.HasPrefix(a, "#b"):
			return strconv.ParseUint(a[2:], 2, 64)
		}
		return 0, fmt.Errorf("bad atom %q", a)
	}
	l := n.list
	if len(l) == 3 && l[0].atom == "_" && strings.HasPrefix(l[1].atom, "bv") {
		return strconv.ParseUint(l[1].atom[2:], 10, 64)
	}
	if len(l) == 4 && l[0].atom == "fp" {
		sgn, e1 := sxValue(l[1])
		exp, e2 := sxValue(l[2])
		man, e3 := sxValue(l[3])
		if e1 != nil || e2 != nil || e3 != nil {
			return 0, fmt.Errorf("bad fp")
		}
		return sgn<<63 | exp<<52 | man, nil
	}
	if len(l) == 4 && l[0].atom == "_" {
		switch l[1].atom {
		case "+zero":
			return 0, nil
		case "-zero":
			return 1 << 63, nil
		case "+oo":
			return 0x7ff0000000000000, nil
		case "-oo":
			return 0xfff0000000000000, nil
		case "NaN":
			return 0x7ff8000000000001, nil
		}
	}
	return 0, fmt.Errorf("bad value sexp")
}
