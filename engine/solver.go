package main

// A persistent SMT solver process (z3 -in by default). Terms are emitted
// lazily as global define-funs; the asserted stack mirrors a prefix of the
// path condition so consecutive queries are incremental.

import (
	"bufio"
	"fmt"
	"io"
	"os"
	"os/exec"
	"strconv"
	"strings"
	"time"
)

var slowMs = func() int { n, _ := strconv.Atoi(os.Getenv("SYMGO_SLOW")); return n }()

type Result int

const (
	Unsat Result = iota
	Sat
	Unknown
)

func (r Result) String() string { return [...]string{"unsat", "sat", "unknown"}[r] }

type Solver struct {
	ctx           *Ctx
	backend       string
	cmd           *exec.Cmd
	in            io.WriteCloser
	out           *bufio.Reader
	emitted       map[int]bool
	declVars      map[string]bool
	declUFs       map[string]bool
	timeoutMs     int
	Queries       int
	Seconds       float64
	Unknowns      int
	Errors        int
	log           *os.File
	dead          bool
	vsets         map[int]bitset
	vidx          map[string]int
	fastMs        int
	noEscalate    bool
	Escalations   int
	fastFails     int
	lastConeBytes int
	nDump         int
	Where         string
	scratch       string
}

func backendArgs(backend string, timeoutMs int) (string, []string) {
	switch backend {
	case "z3-new":
		return "z3-new", []string{"-in"}
	case "cvc5":
		return "cvc5", []string{"--incremental", "--produce-models", "--lang=smt2", fmt.Sprintf("--tlimit-per=%d", 2500)}
	case "cvc5-int":
		// bit-vectors solved as integers (mod 2^k semantics kept): linear length arithmetic
		return "cvc5", []string{"--produce-models", "--lang=smt2", "--solve-bv-as-int=sum", fmt.Sprintf("--tlimit-per=%d", 4000)}
	default:
		return "z3", []string{"-in"}
	}
}

func NewSolver(ctx *Ctx, backend string, timeoutMs int) *Solver {
	s := &Solver{ctx: ctx, backend: backend, timeoutMs: timeoutMs, vsets: map[int]bitset{}, vidx: map[string]int{}, fastMs: 1500, scratch: os.TempDir()}
	if p := os.Getenv("SYMGO_SMTLOG"); p != "" {
		s.log, _ = os.Create(fmt.Sprintf("%s.%d.%p.smt2", p, os.Getpid(), s))
	}
	s.start()
	return s
}

func (s *Solver) start() {
	name, args := backendArgs(s.backend, s.timeoutMs)
	s.cmd = exec.Command(name, args...)
	s.in, _ = s.cmd.StdinPipe()
	o, _ := s.cmd.StdoutPipe()
	s.cmd.Stderr = nil
	s.out = bufio.NewReaderSize(o, 1<<20)
	if err := s.cmd.Start(); err != nil {
		panic("cannot start solver: " + err.Error())
	}
	s.emitted = map[int]bool{}
	s.declVars = map[string]bool{}
	s.declUFs = map[string]bool{}
	s.dead = false
}

func (s *Solver) Close() {
	if s.cmd != nil && s.cmd.Process != nil {
		s.in.Close()
		s.cmd.Process.Kill()
		s.cmd.Wait()
	}
	if s.log != nil {
		s.log.Close()
	}
}

func (s *Solver) restart() {
	s.Close()
	s.start()
}

func (s *Solver) send(line string) {
	if s.log != nil {
		fmt.Fprintln(s.log, line)
	}
	if _, err := io.WriteString(s.in, line+"\n"); err != nil {
		s.dead = true
	}
}

// define makes sure t and everything below it is defined in the solver.
func (s *Solver) define(t *T) {
	if t.op == OConst || s.emitted[t.id] {
		return
	}
	// iterative post-order to avoid deep recursion on long ite chains
	type fr struct {
		t *T
		i int
	}
	st := []fr{{t, 0}}
	for len(st) > 0 {
		f := &st[len(st)-1]
		if f.t.op == OConst || s.emitted[f.t.id] {
			st = st[:len(st)-1]
			continue
		}
		if f.i < len(f.t.a) {
			ch := f.t.a[f.i]
			f.i++
			if ch.op != OConst && !s.emitted[ch.id] {
				st = append(st, fr{ch, 0})
			}
			continue
		}
		n := f.t
		st = st[:len(st)-1]
		s.emitted[n.id] = true
		switch n.op {
		case OVar:
			if !s.declVars[n.name] {
				s.declVars[n.name] = true
				s.send(fmt.Sprintf("(declare-const %s %s)", n.name, n.s))
			}
		case OUF:
			if !s.declUFs[n.name] {
				s.declUFs[n.name] = true
				s.send(fmt.Sprintf("(declare-fun %s ((_ BitVec 64)) (_ BitVec 8))", n.name))
			}
			s.send(fmt.Sprintf("(define-fun t%d () %s %s)", n.id, n.s, body(n)))
		default:
			s.send(fmt.Sprintf("(define-fun t%d () %s %s)", n.id, n.s, body(n)))
		}
	}
}

func (s *Solver) readLine() (string, bool) {
	line, err := s.out.ReadString('\n')
	if err != nil {
		s.dead = true
		return "", false
	}
	return strings.TrimSpace(line), true
}

// readSexp reads one balanced s-expression (possibly spanning lines).
func (s *Solver) readSexp() (string, bool) {
	var sb strings.Builder
	depth := 0
	started := false
	for {
		line, err := s.out.ReadString('\n')
		if err != nil {
			s.dead = true
			return sb.String(), false
		}
		inStr := false
		for _, ch := range line {
			if ch == '"' {
				inStr = !inStr
			}
			if inStr {
				continue
			}
			if ch == '(' {
				depth++
				started = true
			} else if ch == ')' {
				depth--
			}
		}
		sb.WriteString(line)
		if started && depth <= 0 {
			return sb.String(), true
		}
		if !started && strings.TrimSpace(line) != "" {
			return sb.String(), true
		}
	}
}

// varSet returns the set of variable/UF indices occurring in t (cached).
func (s *Solver) varSet(t *T) bitset {
	if bs, ok := s.vsets[t.id]; ok {
		return bs
	}
	var bs bitset
	switch t.op {
	case OConst:
	case OVar:
		bs = bs.with(s.varIndex("v:" + t.name))
	default:
		if t.op == OUF {
			bs = bs.with(s.varIndex("u:" + t.name))
		}
		for _, a := range t.a {
			bs = bs.union(s.varSet(a))
		}
	}
	s.vsets[t.id] = bs
	return bs
}

func (s *Solver) varIndex(name string) int {
	if i, ok := s.vidx[name]; ok {
		return i
	}
	i := len(s.vidx)
	s.vidx[name] = i
	return i
}

type bitset []uint64

func (b bitset) with(i int) bitset {
	n := make(bitset, max(len(b), i/64+1))
	copy(n, b)
	n[i/64] |= 1 << uint(i%64)
	return n
}

func (b bitset) union(o bitset) bitset {
	if len(o) == 0 {
		return b
	}
	if len(b) == 0 {
		return o
	}
	// fast path: o subset of b
	sub := len(o) <= len(b)
	if sub {
		for i := range o {
			if o[i]&^b[i] != 0 {
				sub = false
				break
			}
		}
		if sub {
			return b
		}
	}
	n := make(bitset, max(len(b), len(o)))
	copy(n, b)
	for i := range o {
		n[i] |= o[i]
	}
	return n
}

func (b bitset) intersects(o bitset) bool {
	n := min(len(b), len(o))
	for i := 0; i < n; i++ {
		if b[i]&o[i] != 0 {
			return true
		}
	}
	return false
}

func (b bitset) has(i int) bool { return i/64 < len(b) && b[i/64]&(1<<uint(i%64)) != 0 }

// slice returns the conjuncts of pc that are (transitively) connected to extra
// through shared variables, and the variable set of that slice.
func (s *Solver) slice(pc []*T, extra *T) ([]*T, bitset) {
	vs := s.varSet(extra)
	used := make([]bool, len(pc))
	sets := make([]bitset, len(pc))
	for i, c := range pc {
		sets[i] = s.varSet(c)
	}
	changed := true
	for changed {
		changed = false
		for i := range pc {
			if !used[i] && sets[i].intersects(vs) {
				used[i] = true
				vs = vs.union(sets[i])
				changed = true
			}
		}
	}
	var out []*T
	for i, c := range pc {
		if used[i] {
			out = append(out, c)
		}
	}
	return out, vs
}

// Check decides pc ∧ extra. With a witness model of pc at hand only the
// conjuncts sharing variables with extra are sent (the rest is satisfied by the
// witness, whose values are kept for the variables outside the slice).
func (s *Solver) Check(pc []*T, extra *T, wantModel bool, witness *Model) (Result, *Model) {
	if s.dead {
		s.restart()
	}
	t0 := time.Now()
	defer func() { s.Seconds += time.Since(t0).Seconds(); s.Queries++ }()
	conj := pc
	var vs bitset
	sliced := false
	if witness != nil && extra != nil {
		conj, vs = s.slice(pc, extra)
		sliced = true
	}
	all := conj
	if extra != nil {
		all = append(append([]*T{}, conj...), extra)
	}
	var res Result
	var model *Model
	tq := time.Now()
	if s.fastFails >= 2 && !s.noEscalate {
		// the incremental core keeps timing out on this harness: go straight to the portfolio
		res, model = s.oneShot(all, wantModel)
		if res == Unknown {
			res, model = s.fast(all, wantModel)
		}
	} else {
		res, model = s.fast(all, wantModel)
		if res == Unknown && !s.noEscalate {
			s.fastFails++
			res, model = s.oneShot(all, wantModel)
		} else if time.Since(tq) < 300*time.Millisecond {
			s.fastFails = 0
		}
	}
	if slowMs > 0 && time.Since(tq) > time.Duration(slowMs)*time.Millisecond {
		fmt.Fprintf(os.Stderr, "slow query %.2fs res=%v conj=%d cone=%dB at %s\n", time.Since(tq).Seconds(), res, len(all), s.lastConeBytes, s.Where)
	}
	if res == Unknown {
		s.Unknowns++
	}
	if res == Sat && wantModel && model != nil && sliced {
		merged := witness.clone()
		for name, v := range model.Vars {
			if i, ok := s.vidx["v:"+name]; ok && vs.has(i) {
				merged.Vars[name] = v
			}
		}
		for name, mm := range model.UFs {
			if i, ok := s.vidx["u:"+name]; ok && vs.has(i) {
				merged.UFs[name] = mm
			}
		}
		model = merged
	}
	return res, model
}

// cone prints declarations and definitions of everything below the given terms,
// the assertions, check-sat and (optionally) get-value for the cone's variables.
func (s *Solver) cone(all []*T, wantModel bool) (string, []*T) {
	var sb strings.Builder
	seen := map[int]bool{}
	declared := map[string]bool{}
	var vars []*T
	var ufApps []*T
	type fr struct {
		t *T
		i int
	}
	for _, root := range all {
		st := []fr{{root, 0}}
		for len(st) > 0 {
			f := &st[len(st)-1]
			if f.t.op == OConst || seen[f.t.id] {
				st = st[:len(st)-1]
				continue
			}
			if f.i < len(f.t.a) {
				ch := f.t.a[f.i]
				f.i++
				if ch.op != OConst && !seen[ch.id] {
					st = append(st, fr{ch, 0})
				}
				continue
			}
			n := f.t
			st = st[:len(st)-1]
			seen[n.id] = true
			switch n.op {
			case OVar:
				if !declared[n.name] {
					declared[n.name] = true
					fmt.Fprintf(&sb, "(declare-const %s %s)\n", n.name, n.s)
					vars = append(vars, n)
				}
			case OUF:
				if !declared["u:"+n.name] {
					declared["u:"+n.name] = true
					fmt.Fprintf(&sb, "(declare-fun %s ((_ BitVec 64)) (_ BitVec 8))\n", n.name)
				}
				ufApps = append(ufApps, n)
				fmt.Fprintf(&sb, "(define-fun t%d () %s %s)\n", n.id, n.s, body(n))
			default:
				fmt.Fprintf(&sb, "(define-fun t%d () %s %s)\n", n.id, n.s, body(n))
			}
		}
	}
	for _, t := range all {
		sb.WriteString("(assert " + ref(t) + ")\n")
	}
	sb.WriteString("(check-sat)\n")
	var kinds []*T
	if wantModel {
		var names []string
		for _, v := range vars {
			names = append(names, v.name)
			kinds = append(kinds, v)
		}
		for _, u := range ufApps {
			names = append(names, ref(u), ref(u.a[0]))
			kinds = append(kinds, u, u.a[0])
		}
		for i := 0; i < len(names); i += 400 {
			j := min(i+400, len(names))
			sb.WriteString("(get-value (" + strings.Join(names[i:j], " ") + "))\n")
		}
		if len(names) == 0 {
			kinds = []*T{}
		}
	}
	return sb.String(), kinds
}

// modelFrom builds a model from the values answering cone's get-value commands.
func modelFrom(kinds []*T, vals []uint64) *Model {
	m := &Model{Vars: map[string]uint64{}, UFs: map[string]map[uint64]uint64{}}
	for i := 0; i < len(kinds); i++ {
		t := kinds[i]
		if t.op == OUF {
			mm := m.UFs[t.name]
			if mm == nil {
				mm = map[uint64]uint64{}
				m.UFs[t.name] = mm
			}
			mm[vals[i+1]] = vals[i]
			i++
			continue
		}
		if t.op == OVar {
			m.Vars[t.name] = vals[i]
		}
	}
	return m
}

// fast runs the query in the persistent solver process after a (reset), so the
// solver's full non-incremental strategy applies, with a short timeout.
func (s *Solver) fast(all []*T, wantModel bool) (Result, *Model) {
	tc := time.Now()
	txt, kinds := s.cone(all, wantModel)
	if slowMs > 0 && time.Since(tc) > 500*time.Millisecond {
		fmt.Fprintf(os.Stderr, "slow cone print %.2fs bytes=%d\n", time.Since(tc).Seconds(), len(txt))
	}
	s.lastConeBytes = len(txt)
	if d := os.Getenv("SYMGO_DUMPBIG"); d != "" && len(txt) > 20000 {
		s.nDump++
		os.WriteFile(fmt.Sprintf("%s/big%d_%d.smt2", d, os.Getpid(), s.nDump), []byte(txt), 0o644)
	}
	if strings.HasPrefix(s.backend, "cvc5") {
		s.send("(reset)\n(set-logic ALL)\n(set-option :produce-models true)")
	} else {
		s.send(fmt.Sprintf("(reset)\n(set-option :timeout %d)\n(set-option :produce-models true)", s.fastMs))
	}
	// the whole query is written by a helper goroutine so that a full pipe cannot block us
	done := make(chan struct{})
	go func() {
		s.send(txt)
		close(done)
	}()
	defer func() { <-done }()
	// watchdog: a solver that ignores its soft timeout is killed (the read below then fails and the
	// query is answered "unknown", which escalates it to the portfolio)
	limit := time.Duration(s.fastMs)*time.Millisecond*4 + 10*time.Second
	if strings.HasPrefix(s.backend, "cvc5") {
		limit = 90 * time.Second
	}
	proc := s.cmd.Process
	watchdog := time.AfterFunc(limit, func() {
		fmt.Fprintln(os.Stderr, "solver watchdog: killing unresponsive", s.backend)
		proc.Kill()
	})
	defer watchdog.Stop()
	res := Unknown
	sawErr := false
	for {
		line, ok := s.readLine()
		if !ok {
			s.Errors++
			s.restart()
			return Unknown, nil
		}
		if line == "" {
			continue
		}
		if strings.HasPrefix(line, "(error") {
			s.Errors++
			fmt.Fprintln(os.Stderr, "solver error:", line)
			sawErr = true
			continue
		}
		switch line {
		case "sat":
			res = Sat
		case "unsat":
			res = Unsat
		case "unknown", "timeout":
			res = Unknown
		default:
			fmt.Fprintln(os.Stderr, "solver said:", line)
			continue
		}
		break
	}
	if sawErr {
		res = Unknown
	}
	if !wantModel || len(kinds) == 0 {
		if wantModel && res == Sat {
			return res, modelFrom(nil, nil)
		}
		return res, nil
	}
	// consume the answers of the get-value commands (errors when not sat)
	nBatches := (len(kinds) + 399) / 400
	var vals []uint64
	bad := false
	for b := 0; b < nBatches; b++ {
		sx, ok := s.readSexp()
		if !ok {
			s.Errors++
			s.restart()
			return Unknown, nil
		}
		if res != Sat {
			continue
		}
		if strings.HasPrefix(strings.TrimSpace(sx), "(error") {
			bad = true
			continue
		}
		v, err := parsePairs(sx)
		if err != nil {
			bad = true
			continue
		}
		vals = append(vals, v...)
	}
	if res != Sat {
		return res, nil
	}
	if bad || len(vals) != len(kinds) {
		return Unknown, nil
	}
	return Sat, modelFrom(kinds, vals)
}

// portfolioSem bounds the number of concurrently running portfolio queries.
var portfolioSem = make(chan struct{}, 5)

// oneShot writes the cone of influence of the query to a file and runs a
// portfolio of solvers on it with the full timeout.
func (s *Solver) oneShot(all []*T, wantModel bool) (Result, *Model) {
	s.Escalations++
	txt, kinds := s.cone(all, wantModel)
	f, err := os.CreateTemp(s.scratch, "q*.smt2")
	if err != nil {
		return Unknown, nil
	}
	f.WriteString("(set-logic ALL)\n(set-option :produce-models true)\n")
	f.WriteString(txt)
	f.Close()
	if os.Getenv("SYMGO_KEEPQ") == "" {
		defer os.Remove(f.Name())
	} else {
		fmt.Fprintln(os.Stderr, "escalated query kept:", f.Name())
	}
	portfolioSem <- struct{}{}
	defer func() { <-portfolioSem }()
	type answer struct {
		res Result
		out string
	}
	sec := (s.timeoutMs + 999) / 1000
	cmds := [][]string{
		{"z3", fmt.Sprintf("-T:%d", sec), f.Name()},
		{"z3-new", fmt.Sprintf("-T:%d", sec), f.Name()},
		{"cvc5", fmt.Sprintf("--tlimit=%d", s.timeoutMs), "--produce-models", f.Name()},
		{"cvc5", fmt.Sprintf("--tlimit=%d", s.timeoutMs), "--produce-models", "--solve-bv-as-int=sum", f.Name()},
	}
	ch := make(chan answer, len(cmds))
	var procs []*exec.Cmd
	for _, c := range cmds {
		cmd := exec.Command(c[0], c[1:]...)
		procs = append(procs, cmd)
		go func(cmd *exec.Cmd) {
			out, _ := cmd.Output()
			txt := string(out)
			first := strings.TrimSpace(strings.SplitN(txt, "\n", 2)[0])
			r := Unknown
			// an error before the answer makes it unreliable; errors after
			// "unsat" come from the trailing get-value and are expected
			switch first {
			case "sat":
				if !strings.Contains(txt, "(error") {
					r = Sat
				}
			case "unsat":
				r = Unsat
			}
			ch <- answer{r, txt}
		}(cmd)
	}
	res := Unknown
	var got answer
	for i := 0; i < len(cmds); i++ {
		a := <-ch
		if a.res != Unknown {
			res, got = a.res, a
			break
		}
	}
	for _, p := range procs {
		if p.Process != nil {
			p.Process.Kill()
		}
	}
	if res != Sat || !wantModel {
		return res, nil
	}
	rest := got.out[strings.Index(got.out, "sat")+3:]
	var vals []uint64
	pos := 0
	for pos < len(rest) {
		n, j, err := parseSx(rest, pos)
		if err != nil {
			break
		}
		pos = j
		for _, p := range n.list {
			if len(p.list) != 2 {
				return Unknown, nil
			}
			v, err := sxValue(p.list[1])
			if err != nil {
				return Unknown, nil
			}
			vals = append(vals, v)
		}
	}
	if len(vals) != len(kinds) {
		return Unknown, nil
	}
	return Sat, modelFrom(kinds, vals)
}

func (s *Solver) getModel() *Model {
	m := &Model{Vars: map[string]uint64{}, UFs: map[string]map[uint64]uint64{}}
	var names []string
	var kinds []*T
	for _, v := range s.ctx.pathVars {
		if s.declVars[v.name] {
			names = append(names, v.name)
			kinds = append(kinds, v)
		}
	}
	type ufq struct{ app *T }
	var ufs []*T
	for _, u := range s.ctx.pathUF {
		if s.emitted[u.id] {
			ufs = append(ufs, u)
			names = append(names, ref(u))
			kinds = append(kinds, u)
			names = append(names, ref(u.a[0]))
			kinds = append(kinds, u.a[0])
		}
	}
	if len(names) == 0 {
		return m
	}
	// query in batches
	vals := make([]uint64, len(names))
	const batch = 400
	for i := 0; i < len(names); i += batch {
		j := i + batch
		if j > len(names) {
			j = len(names)
		}
		s.send("(get-value (" + strings.Join(names[i:j], " ") + "))")
		txt, ok := s.readSexp()
		if !ok || strings.HasPrefix(strings.TrimSpace(txt), "(error") {
			s.Errors++
			fmt.Fprintln(os.Stderr, "get-value failed:", txt)
			return nil
		}
		pairs, err := parsePairs(txt)
		if err != nil || len(pairs) != j-i {
			s.Errors++
			fmt.Fprintln(os.Stderr, "get-value parse failed:", err, txt)
			return nil
		}
		for k, p := range pairs {
			vals[i+k] = p
		}
	}
	for i, t := range kinds {
		if t.op == OVar {
			m.Vars[t.name] = vals[i]
		}
	}
	// UF applications: (app, idx) pairs follow each other
	for i := 0; i < len(kinds); i++ {
		if kinds[i].op == OUF {
			app := kinds[i]
			val := vals[i]
			idx := vals[i+1]
			mm := m.UFs[app.name]
			if mm == nil {
				mm = map[uint64]uint64{}
				m.UFs[app.name] = mm
			}
			mm[idx] = val
			i++
		}
	}
	return m
}

// ---- s-expression parsing of get-value answers ----

type sx struct {
	atom string
	list []*sx
}

func parseSx(s string, i int) (*sx, int, error) {
	for i < len(s) && (s[i] == ' ' || s[i] == '\n' || s[i] == '\t' || s[i] == '\r') {
		i++
	}
	if i >= len(s) {
		return nil, i, fmt.Errorf("eof")
	}
	if s[i] == '(' {
		i++
		n := &sx{list: []*sx{}}
		for {
			for i < len(s) && (s[i] == ' ' || s[i] == '\n' || s[i] == '\t' || s[i] == '\r') {
				i++
			}
			if i >= len(s) {
				return nil, i, fmt.Errorf("eof in list")
			}
			if s[i] == ')' {
				return n, i + 1, nil
			}
			ch, j, err := parseSx(s, i)
			if err != nil {
				return nil, j, err
			}
			n.list = append(n.list, ch)
			i = j
		}
	}
	j := i
	for j < len(s) && s[j] != ' ' && s[j] != '\n' && s[j] != ')' && s[j] != '(' && s[j] != '\t' && s[j] != '\r' {
		j++
	}
	return &sx{atom: s[i:j]}, j, nil
}

func parsePairs(txt string) ([]uint64, error) {
	n, _, err := parseSx(txt, 0)
	if err != nil {
		return nil, err
	}
	var out []uint64
	for _, p := range n.list {
		if len(p.list) != 2 {
			return nil, fmt.Errorf("bad pair")
		}
		v, err := sxValue(p.list[1])
		if err != nil {
			return nil, err
		}
		out = append(out, v)
	}
	return out, nil
}

func sxValue(n *sx) (uint64, error) {
	if n.list == nil {
		a := n.atom
		switch {
		case a == "true":
			return 1, nil
		case a == "false":
			return 0, nil
		case strings.HasPrefix(a, "#x"):
			return strconv.ParseUint(a[2:], 16, 64)
		case strings.HasPrefix(a, "#b"):
			return strconv.ParseUint(a[2:], 2, 64)
		}
		return 0, fmt.Errorf("bad atom %q", a)
	}
	l := n.list
	if len(l) == 3 && l[0].atom == "_" && strings.HasPrefix(l[1].atom, "bv") {
		return strconv.ParseUint(l[1].atom[2:], 10, 64)
	}
	if len(l) == 4 && l[0].atom == "fp" {
		sgn, e1 := sxValue(l[1])
		exp, e2 := sxValue(l[2])
		man, e3 := sxValue(l[3])
		if e1 != nil || e2 != nil || e3 != nil {
			return 0, fmt.Errorf("bad fp")
		}
		return sgn<<63 | exp<<52 | man, nil
	}
	if len(l) == 4 && l[0].atom == "_" {
		switch l[1].atom {
		case "+zero":
			return 0, nil
		case "-zero":
			return 1 << 63, nil
		case "+oo":
			return 0x7ff0000000000000, nil
		case "-oo":
			return 0xfff0000000000000, nil
		case "NaN":
			return 0x7ff8000000000001, nil
		}
	}
	return 0, fmt.Errorf("bad value sexp")
}
