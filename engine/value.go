package main

import (
	"fmt"
	"go/types"

	"golang.org/x/tools/go/ssa"
)

// Value is the dynamically typed value of the symbolic interpreter.
//
//	*T                    scalar: bool, integer, float64
//	*Value                pointer to a cell (nil pointer = (*Value)(nil))
//	BytePtr               pointer to a byte inside a byte object
//	SymElemPtr            pointer to an element of a cell array at a symbolic index
//	View                  []byte or string
//	ByteArr               [N]byte value
//	Struct, Array, Tuple  aggregates
//	SliceV                slice of non-byte elements
//	Iface                 interface value
//	*Closure, *ssa.Function, *ssa.Builtin, nil   function values
//	*MapV, *ChanV         reference types
//	UnsafePtr             unsafe.Pointer wrapping one of the pointer kinds
type Value interface{}

type BytePtr struct {
	O   *ByteObj
	Off *T
}

type SymElemPtr struct {
	Elems []Value
	Idx   *T
}

type View struct {
	O   *ByteObj
	Off *T
	Len *T
	Cap *T
}

type ByteArr struct{ O *ByteObj }

type Struct []Value
type Array []Value
type Tuple []Value

type SliceV struct{ A []Value }

type Iface struct {
	T types.Type
	V Value
}

type Closure struct {
	Fn  *ssa.Function
	Env []Value
}

type MapV struct {
	keys  []Value
	vals  []Value
	keyT  types.Type
	valT  types.Type
	alive []bool
	// race detection (maps created by the code under test, scheduled harnesses only): the last write and the
	// last read per goroutine, each with the goroutine's synchronisation epoch at that moment
	tracked bool
	lastW   *mapAccess
	lastR   map[int]*mapAccess
}

type mapAccess struct {
	g     *Goroutine
	epoch int
	where string
}

type UnsafePtr struct{ V Value }

// RangeIter is the state of a Range instruction.
type RangeIter struct {
	m     *MapV
	idxs  []int
	pos   int
	str   View
	off   *T
	isStr bool
}

// control-flow panics of the interpreter
type pathEnd struct{ why string }     // path is over (not an error)
type unsupported struct{ why string } // path is inconclusive
type goPanic struct {                 // a Go panic travelling up the interpreted stack
	val   Value
	site  string
	msg   string
	trace []string
}

func isByteType(t types.Type) bool {
	b, ok := t.Underlying().(*types.Basic)
	return ok && b.Kind() == types.Uint8
}

func isByteSlice(t types.Type) bool {
	switch u := t.Underlying().(type) {
	case *types.Slice:
		return isByteType(u.Elem())
	case *types.Basic:
		return u.Info()&types.IsString != 0
	}
	return false
}

func isString(t types.Type) bool {
	b, ok := t.Underlying().(*types.Basic)
	return ok && b.Info()&types.IsString != 0
}

// intInfo returns width and signedness of an integer (or bool/unsafe) basic type.
func intInfo(t types.Type) (w int, signed bool, ok bool) {
	b, isB := t.Underlying().(*types.Basic)
	if !isB {
		return 0, false, false
	}
	switch b.Kind() {
	case types.Int, types.Int64, types.UntypedInt:
		return 64, true, true
	case types.Int8:
		return 8, true, true
	case types.Int16:
		return 16, true, true
	case types.Int32, types.UntypedRune:
		return 32, true, true
	case types.Uint, types.Uint64, types.Uintptr:
		return 64, false, true
	case types.Uint8:
		return 8, false, true
	case types.Uint16:
		return 16, false, true
	case types.Uint32:
		return 32, false, true
	}
	return 0, false, false
}

func isFloat(t types.Type) bool {
	b, ok := t.Underlying().(*types.Basic)
	return ok && (b.Kind() == types.Float64 || b.Kind() == types.UntypedFloat || b.Kind() == types.Float32)
}

func isBool(t types.Type) bool {
	b, ok := t.Underlying().(*types.Basic)
	return ok && b.Info()&types.IsBoolean != 0
}

func (ex *Exec) intConst(v int64) *T { return ex.c.ConstS(64, v) }

func (ex *Exec) emptyView() View {
	z := ex.intConst(0)
	return View{O: nil, Off: z, Len: z, Cap: z}
}

// zero returns the zero value of type t.
func (ex *Exec) zero(t types.Type) Value {
	switch u := t.Underlying().(type) {
	case *types.Basic:
		if u.Info()&types.IsBoolean != 0 {
			return ex.c.False
		}
		if w, _, ok := intInfo(u); ok {
			return ex.c.Const(w, 0)
		}
		if isFloat(u) {
			return ex.c.FConst(0)
		}
		if u.Info()&types.IsString != 0 {
			return ex.emptyView()
		}
		if u.Kind() == types.UnsafePointer {
			return UnsafePtr{}
		}
		if u.Kind() == types.UntypedNil {
			return nil
		}
		panic(unsupported{"zero of basic type " + u.String()})
	case *types.Pointer:
		if isByteType(u.Elem()) {
			return BytePtr{}
		}
		return (*Value)(nil)
	case *types.Slice:
		if isByteType(u.Elem()) {
			return ex.emptyView()
		}
		return SliceV{}
	case *types.Array:
		if isByteType(u.Elem()) {
			return ByteArr{ex.newByteObj(ex.intConst(u.Len()), u.Len(), &layer{kind: lZero}, "array")}
		}
		a := make(Array, u.Len())
		for i := range a {
			a[i] = ex.zero(u.Elem())
		}
		return a
	case *types.Struct:
		s := make(Struct, u.NumFields())
		for i := range s {
			s[i] = ex.zero(u.Field(i).Type())
		}
		return s
	case *types.Map:
		return (*MapV)(nil)
	case *types.Chan:
		return (*ChanV)(nil)
	case *types.Signature:
		return nil
	case *types.Interface:
		return Iface{}
	case *types.Tuple:
		tu := make(Tuple, u.Len())
		for i := range tu {
			tu[i] = ex.zero(u.At(i).Type())
		}
		return tu
	}
	panic(unsupported{fmt.Sprintf("zero of type %v", t)})
}

// copyVal copies aggregates so that value semantics are preserved.
func (ex *Exec) copyVal(v Value) Value {
	switch x := v.(type) {
	case Struct:
		n := make(Struct, len(x))
		for i := range x {
			n[i] = ex.copyVal(x[i])
		}
		return n
	case Array:
		n := make(Array, len(x))
		for i := range x {
			n[i] = ex.copyVal(x[i])
		}
		return n
	case ByteArr:
		no := ex.newByteObj(x.O.size, x.O.maxSize, ex.snapshot(x.O), "array")
		return ByteArr{no}
	}
	return v
}

func (ex *Exec) storeInto(dst *Value, v Value) {
	switch x := v.(type) {
	case Struct:
		lhs, ok := (*dst).(Struct)
		if !ok || len(lhs) != len(x) {
			*dst = ex.copyVal(v)
			return
		}
		for i := range lhs {
			ex.storeInto(&lhs[i], x[i])
		}
	case Array:
		lhs, ok := (*dst).(Array)
		if !ok || len(lhs) != len(x) {
			*dst = ex.copyVal(v)
			return
		}
		for i := range lhs {
			ex.storeInto(&lhs[i], x[i])
		}
	case ByteArr:
		lhs, ok := (*dst).(ByteArr)
		if !ok {
			*dst = ex.copyVal(v)
			return
		}
		lhs.O.top = ex.snapshot(x.O)
	default:
		*dst = v
	}
}

func (ex *Exec) load(p Value) Value {
	switch p := p.(type) {
	case *Value:
		if p == nil {
			ex.fail("nil-deref", "nil pointer dereference")
		}
		return ex.copyVal(*p)
	case BytePtr:
		if p.O == nil {
			ex.fail("nil-deref", "nil pointer dereference")
		}
		return ex.objRead(p.O, p.Off)
	case SymElemPtr:
		return ex.symElemLoad(p)
	case UnsafePtr:
		return ex.load(p.V)
	}
	panic(unsupported{fmt.Sprintf("load through %T", p)})
}

func (ex *Exec) store(p Value, v Value) {
	switch p := p.(type) {
	case *Value:
		if p == nil {
			ex.fail("nil-deref", "nil pointer dereference (store)")
		}
		ex.storeInto(p, v)
	case BytePtr:
		if p.O == nil {
			ex.fail("nil-deref", "nil pointer dereference (store)")
		}
		ex.objStore(p.O, p.Off, v.(*T))
	case SymElemPtr:
		ex.symElemStore(p, v)
	default:
		panic(unsupported{fmt.Sprintf("store through %T", p)})
	}
}

func (ex *Exec) symElemLoad(p SymElemPtr) Value {
	c := ex.c
	lo, hi := c.urange(p.Idx)
	if hi >= uint64(len(p.Elems)) {
		hi = uint64(len(p.Elems)) - 1
	}
	if lo > hi {
		panic(pathEnd{"empty symbolic index range"})
	}
	if _, isView := p.Elems[lo].(View); isView {
		return ex.symElemLoadView(p, lo, hi)
	}
	// a table of constant booleans becomes a disjunction of index ranges
	if e0, ok := p.Elems[lo].(*T); ok && e0.s.K == KBool {
		allConst := true
		for k := lo; k <= hi; k++ {
			e, ok := p.Elems[k].(*T)
			if !ok || !e.IsConst() {
				allConst = false
				break
			}
		}
		if allConst {
			var ors []*T
			w := p.Idx.s.W
			for k := lo; k <= hi; k++ {
				if !p.Elems[k].(*T).IsTrue() {
					continue
				}
				j := k
				for j+1 <= hi && p.Elems[j+1].(*T).IsTrue() {
					j++
				}
				if j == k {
					ors = append(ors, c.Eq(p.Idx, c.Const(w, k)))
				} else {
					ors = append(ors, c.And(c.Ule(c.Const(w, k), p.Idx), c.Ule(p.Idx, c.Const(w, j))))
				}
				k = j
			}
			return c.Or(ors...)
		}
	}
	var res *T
	for k := int64(hi); k >= int64(lo); k-- {
		e, ok := p.Elems[k].(*T)
		if !ok {
			panic(unsupported{"symbolic index into non-scalar elements"})
		}
		if res == nil {
			res = e
		} else {
			res = c.Ite(c.Eq(p.Idx, c.Const(p.Idx.s.W, uint64(k))), e, res)
		}
	}
	return res
}

// symElemLoadView selects one of several strings by a symbolic index without
// forking: the result is a fresh object whose length and bytes are ite-chains.
func (ex *Exec) symElemLoadView(p SymElemPtr, lo, hi uint64) Value {
	c := ex.c
	maxN := int64(0)
	for k := lo; k <= hi; k++ {
		v, ok := p.Elems[k].(View)
		if !ok {
			panic(unsupported{"symbolic index into mixed elements"})
		}
		m := ex.maxLen(v)
		if m < 0 || m > 256 {
			panic(unsupported{"symbolic index into long strings"})
		}
		if m > maxN {
			maxN = m
		}
	}
	sel := func(k uint64) *T { return c.Eq(p.Idx, c.Const(p.Idx.s.W, k)) }
	ln := p.Elems[hi].(View).Len
	for k := int64(hi) - 1; k >= int64(lo); k-- {
		ln = c.Ite(sel(uint64(k)), p.Elems[k].(View).Len, ln)
	}
	cells := make([]*T, maxN)
	for j := int64(0); j < maxN; j++ {
		jt := ex.intConst(j)
		cell := ex.viewRead(p.Elems[hi].(View), jt)
		for k := int64(hi) - 1; k >= int64(lo); k-- {
			cell = c.Ite(sel(uint64(k)), ex.viewRead(p.Elems[k].(View), jt), cell)
		}
		cells[j] = cell
	}
	o := ex.newByteObj(ex.intConst(maxN), maxN, &layer{kind: lCells, cells: cells}, "select")
	o.readonly = true
	return View{O: o, Off: ex.intConst(0), Len: ln, Cap: ln}
}

func (ex *Exec) symElemStore(p SymElemPtr, v Value) {
	c := ex.c
	nv, ok := v.(*T)
	if !ok {
		k := ex.concretize(p.Idx, 0, int64(len(p.Elems))-1)
		ex.storeInto(&p.Elems[k], v)
		return
	}
	lo, hi := c.urange(p.Idx)
	if hi >= uint64(len(p.Elems)) {
		hi = uint64(len(p.Elems)) - 1
	}
	for k := lo; k <= hi; k++ {
		old := p.Elems[k].(*T)
		p.Elems[k] = c.Ite(c.Eq(p.Idx, c.Const(p.Idx.s.W, k)), nv, old)
	}
}
