package main

// Contract model of gotils/promext metric vectors (client_golang MetricVec):
// WithLabelValues returns one metric object per distinct label tuple and
// panics iff the arity is wrong or a label value is not valid UTF-8.

import (
	"go/types"

	"golang.org/x/tools/go/ssa"
)

const promextPath = "github.com/relex/gotils/promexporter/promext"

type vecState struct {
	n       int
	elem    string // rwCounter | lazyRWCounter | rwGauge
	keys    [][]Value
	metrics []Value
	parent  *vecState // curried vector: shares the parent's table
	fixed   []Value   // curried (leftmost) label values
}

func (ex *Exec) promextType(name string) types.Type {
	p := ex.prog.ImportedPackage(promextPath)
	if p == nil {
		panic(unsupported{"promext not loaded"})
	}
	t := p.Type(name)
	if t == nil {
		panic(unsupported{"promext type " + name})
	}
	return t.Type()
}

func init() {
	mkVec := func(elem string) intrinsic {
		return func(ex *Exec, fr *frame, fn *ssa.Function, args []Value) Value {
			p := new(Value)
			*p = ex.zero(deref(fn.Signature.Results().At(0).Type()))
			names, _ := args[1].(SliceV)
			ex.vecs[p] = &vecState{n: len(names.A), elem: elem}
			return p
		}
	}
	intrinsics[promextPath+".NewRWCounterVec"] = mkVec("rwCounter")
	intrinsics[promextPath+".NewLazyRWCounterVec"] = mkVec("lazyRWCounter")
	intrinsics[promextPath+".NewRWGaugeVec"] = mkVec("rwGauge")
	findVec := func(ex *Exec, v Value) *vecState {
		p, ok := v.(*Value)
		if !ok || p == nil {
			ex.fail("nil-deref", "method on nil metric vector")
		}
		vs := ex.vecs[p]
		if vs == nil {
			// embedded vector (LazyRWCounterVec embeds RWCounterVec): find the owner
			for q, st := range ex.vecs {
				if s, isS := (*q).(Struct); isS && len(s) > 0 && &s[0] == p {
					vs = st
				}
			}
		}
		if vs == nil {
			panic(unsupported{"metric vector not created by promext.New*Vec"})
		}
		return vs
	}
	curry := func(ex *Exec, fr *frame, fn *ssa.Function, args []Value) Value {
		vs := findVec(ex, args[0])
		m, _ := args[1].(*MapV)
		var fixed []Value
		if m != nil {
			for i := range m.keys {
				if m.alive[i] {
					fixed = append(fixed, m.vals[i])
				}
			}
		}
		p := new(Value)
		*p = ex.zero(deref(fn.Signature.Results().At(0).Type()))
		root := vs
		pre := append([]Value{}, vs.fixed...)
		if vs.parent != nil {
			root = vs.parent
		}
		ex.vecs[p] = &vecState{n: vs.n - len(fixed), elem: vs.elem, parent: root, fixed: append(pre, fixed...)}
		return p
	}
	for _, v := range []string{"RWCounterVec", "LazyRWCounterVec", "RWGaugeVec"} {
		intrinsics["(*"+promextPath+"."+v+").MustCurryWith"] = curry
	}
	with := func(ex *Exec, fr *frame, fn *ssa.Function, args []Value) Value {
		vs := findVec(ex, args[0])
		lvs, _ := args[1].(SliceV)
		if len(lvs.A) != vs.n {
			ex.goPanicNow("inconsistent label cardinality")
		}
		if vs.parent != nil {
			lvs = SliceV{A: append(append([]Value{}, vs.fixed...), lvs.A...)}
			vs = vs.parent
		}
		validFn := ex.stdFunc("unicode/utf8", "ValidString")
		for _, lv := range lvs.A {
			ok := ex.callFn(nil, validFn, []Value{lv}, nil).(*T)
			if !ex.branch(ok) {
				ex.goPanicNow("label value is not valid UTF-8")
			}
		}
		for i, k := range vs.keys {
			same := true
			for j := range k {
				if !ex.branch(ex.strEq(k[j].(View), lvs.A[j].(View))) {
					same = false
					break
				}
			}
			if same {
				return vs.metrics[i]
			}
		}
		t := ex.promextType(vs.elem)
		mp := new(Value)
		*mp = ex.zero(t)
		m := Iface{T: types.NewPointer(t), V: mp}
		key := make([]Value, len(lvs.A))
		for j, lv := range lvs.A {
			key[j] = ex.cloneView(lv.(View), "label")
		}
		vs.keys = append(vs.keys, key)
		vs.metrics = append(vs.metrics, m)
		return m
	}
	for _, v := range []string{"RWCounterVec", "LazyRWCounterVec", "RWGaugeVec"} {
		intrinsics["(*"+promextPath+"."+v+").WithLabelValues"] = with
	}
}
