package main

// Byte objects: the backing store of every []byte, string and [N]byte.
// Content is a persistent list of layers over a base; reads are resolved to
// terms at the moment they are made (no SMT arrays).

import (
	"fmt"
	"sort"
)

type layerKind uint8

const (
	lZero layerKind = iota
	lConst
	lCells
	lUF
	lOverlay
	lStore
	lCopy
)

type layer struct {
	kind   layerKind
	prev   *layer
	data   []byte       // lConst
	cells  []*T         // lCells
	uf     string       // lUF
	ov     map[int64]*T // lOverlay
	frozen bool
	idx    *T // lStore
	val    *T
	dst    *T // lCopy
	n      *T
	src    *layer
	srcOff *T
}

// piece describes one segment of a string built by the Sprintf model.
type piece struct {
	lit   string // literal text, or
	num   *T     // the value of a zero-padded fixed-width decimal number
	width int
}

type ByteObj struct {
	pieces   []piece // set for strings produced by the Sprintf model (immutable)
	id       int
	size     *T
	maxSize  int64 // concrete upper bound of size, -1 when unknown
	top      *layer
	readonly bool
	label    string
}

const maxIteChain = 70000

func (ex *Exec) newByteObj(size *T, maxSize int64, base *layer, label string) *ByteObj {
	ex.nextObj++
	if k, ok := size.ConstS(); ok {
		maxSize = k
	}
	return &ByteObj{id: ex.nextObj, size: size, maxSize: maxSize, top: base, label: label}
}

func (ex *Exec) constBytesObj(data []byte) *ByteObj {
	o := ex.newByteObj(ex.intConst(int64(len(data))), int64(len(data)), &layer{kind: lConst, data: data}, "const")
	o.readonly = true
	return o
}

func (ex *Exec) snapshot(o *ByteObj) *layer {
	for l := o.top; l != nil; l = l.prev {
		if l.kind == lOverlay {
			if l.frozen {
				break
			}
			l.frozen = true
		}
	}
	return o.top
}

// readLayer returns the byte at index idx (a BV64 term) of the content l.
func (ex *Exec) readLayer(l *layer, idx *T) *T {
	c := ex.c
	type guard struct{ cond, val *T }
	var guards []guard
	var base *T
	ci, isConst := idx.ConstS()
loop:
	for ; l != nil; l = l.prev {
		switch l.kind {
		case lZero:
			base = c.Const(8, 0)
			break loop
		case lConst:
			if isConst {
				if ci >= 0 && ci < int64(len(l.data)) {
					base = c.Const(8, uint64(l.data[ci]))
				} else {
					base = c.Const(8, 0)
				}
				break loop
			}
			lo, hi := c.urange(idx)
			if hi >= uint64(len(l.data)) {
				hi = uint64(len(l.data)) - 1
			}
			if len(l.data) == 0 || lo > hi {
				base = c.Const(8, 0)
				break loop
			}
			if hi-lo > maxIteChain {
				panic(unsupported{fmt.Sprintf("symbolic index into %d constant bytes", len(l.data))})
			}
			base = c.Const(8, 0)
			for k := int64(hi); k >= int64(lo); k-- {
				base = c.Ite(c.Eq(idx, c.ConstS(64, k)), c.Const(8, uint64(l.data[k])), base)
			}
			break loop
		case lCells:
			if isConst {
				if ci >= 0 && ci < int64(len(l.cells)) {
					base = l.cells[ci]
				} else {
					base = c.Const(8, 0)
				}
				break loop
			}
			lo, hi := c.urange(idx)
			if hi >= uint64(len(l.cells)) {
				hi = uint64(len(l.cells)) - 1
			}
			if len(l.cells) == 0 || lo > hi {
				base = c.Const(8, 0)
				break loop
			}
			base = c.Const(8, 0)
			for k := int64(hi); k >= int64(lo); k-- {
				base = c.Ite(c.Eq(idx, c.ConstS(64, k)), l.cells[k], base)
			}
			break loop
		case lUF:
			base = c.UF(l.uf, idx)
			break loop
		case lOverlay:
			if isConst {
				if v, ok := l.ov[ci]; ok {
					base = v
					break loop
				}
				continue
			}
			lo, hi := c.urange(idx)
			keys := make([]int64, 0, len(l.ov))
			for k := range l.ov {
				if uint64(k) >= lo && uint64(k) <= hi {
					keys = append(keys, k)
				}
			}
			sort.Slice(keys, func(i, j int) bool { return keys[i] < keys[j] })
			for _, k := range keys {
				guards = append(guards, guard{c.Eq(idx, c.ConstS(64, k)), l.ov[k]})
			}
		case lStore:
			cond := c.Eq(idx, l.idx)
			if cond.IsTrue() {
				base = l.val
				break loop
			}
			if cond.IsFalse() {
				continue
			}
			guards = append(guards, guard{cond, l.val})
		case lCopy:
			rel := c.Sub(idx, l.dst)
			cond := c.Ult(rel, l.n)
			if cond.IsFalse() {
				continue
			}
			v := ex.readLayer(l.src, c.Add(rel, l.srcOff))
			if cond.IsTrue() {
				base = v
				break loop
			}
			guards = append(guards, guard{cond, v})
		}
	}
	if base == nil {
		base = c.Const(8, 0)
	}
	for i := len(guards) - 1; i >= 0; i-- {
		base = c.Ite(guards[i].cond, guards[i].val, base)
	}
	return base
}

func (ex *Exec) objRead(o *ByteObj, idx *T) *T { return ex.readLayer(o.top, idx) }

func (ex *Exec) objStore(o *ByteObj, idx *T, val *T) {
	if o.readonly {
		ex.violation("write-to-readonly", "write into read-only string memory")
		panic(pathEnd{"write to read-only memory"})
	}
	if ci, ok := idx.ConstS(); ok {
		if o.top == nil || o.top.kind != lOverlay || o.top.frozen {
			o.top = &layer{kind: lOverlay, prev: o.top, ov: map[int64]*T{}}
		}
		o.top.ov[ci] = val
		return
	}
	o.top = &layer{kind: lStore, prev: o.top, idx: idx, val: val}
}

// objCopy copies n bytes from content src at srcOff into o at dst.
func (ex *Exec) objCopy(o *ByteObj, dst *T, n *T, src *layer, srcOff *T) {
	if n.IsConst() && n.c == 0 {
		return
	}
	if o.readonly {
		ex.violation("write-to-readonly", "copy into read-only string memory")
		panic(pathEnd{"write to read-only memory"})
	}
	d, ok1 := dst.ConstS()
	k, ok2 := n.ConstS()
	s, ok3 := srcOff.ConstS()
	if ok1 && ok2 && ok3 && k <= 4096 {
		vals := make([]*T, k)
		for i := int64(0); i < k; i++ {
			vals[i] = ex.readLayer(src, ex.intConst(s+i))
		}
		if o.top == nil || o.top.kind != lOverlay || o.top.frozen {
			o.top = &layer{kind: lOverlay, prev: o.top, ov: map[int64]*T{}}
		}
		for i := int64(0); i < k; i++ {
			o.top.ov[d+i] = vals[i]
		}
		return
	}
	o.top = &layer{kind: lCopy, prev: o.top, dst: dst, n: n, src: src, srcOff: srcOff}
}

// cloneRange creates a new object holding bytes [off, off+n) of o.
func (ex *Exec) cloneRange(o *ByteObj, off, n *T, maxN int64, label string) *ByteObj {
	no := ex.newByteObj(n, maxN, &layer{kind: lZero}, label)
	if o != nil {
		snap := ex.snapshot(o)
		if off.IsConst() && off.c == 0 {
			// share the content directly (indices coincide)
			no.top = snap
			if no.top == nil {
				no.top = &layer{kind: lZero}
			}
		} else {
			ex.objCopy(no, ex.intConst(0), n, snap, off)
		}
	}
	return no
}
