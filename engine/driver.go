package main

// Loading /repo with the harness overlay, harness discovery, path exploration
// with a pool of workers, and result aggregation.

import (
	"encoding/hex"
	"fmt"
	"go/ast"
	"os"
	"path/filepath"
	"sort"
	"strconv"
	"strings"
	"sync"
	"time"

	"golang.org/x/tools/go/packages"
	"golang.org/x/tools/go/ssa"
	"golang.org/x/tools/go/ssa/ssautil"
)

type Options struct {
	repo       string
	harnessDir string
	symDir     string
	workers    int
	timeoutMs  int
	backend    string
	verbose    bool
	tier       int
	seed       int64
	wallBudget time.Duration
}

func (o *Options) skipInit(pkgPath string) bool {
	switch pkgPath {
	case "runtime", "os", "syscall", "net", "reflect", "testing", "internal/poll", "os/signal", "crypto/rand",
		"github.com/prometheus/client_golang/prometheus", "internal/godebug", "log", "flag":
		return true
	}
	return false
}

type Harness struct {
	PreemptIn    string // when set, only goroutines whose entry function name contains this text are preempted (focuses the preemption budget)
	PreemptCalls string // import-path prefix: calls into these packages are preemption points (data-race windows between visible operations)
	Name         string
	Pkg          string
	Fn           *ssa.Function
	Stubs        map[string]Value
	Unwind       int
	MaxSteps     int
	MaxPaths     int
	Preempt      int
	Timers       int
	Delays       int
	Tier         int
	Expect       []string // labels of reach witnesses that must be hit
	Doc          string
	Solver       string
	NoNative     bool
	VirtualClock bool
}

type WorkItem struct {
	Prefix  []int16
	Model   *Model
	Tainted bool
}

type Worker struct {
	id      int
	opts    *Options
	prog    *ssa.Program
	ctx     *Ctx
	solver  *Solver
	fnInfos map[*ssa.Function]*fnInfo
	curItem *WorkItem
}

type Sample struct {
	Inputs   map[string]interface{} `json:"inputs"`
	Observed map[string]string      `json:"observed,omitempty"`
	Outcome  string                 `json:"outcome"`
	Log      []int16                `json:"decisions,omitempty"`
}

type ViolationOut struct {
	Kind    string                 `json:"kind"`
	Label   string                 `json:"label"`
	Site    string                 `json:"site"`
	Trace   []string               `json:"trace"`
	Inputs  map[string]interface{} `json:"inputs"`
	// AltInputs: counterexamples of other paths that violate the same obligation (at most 5); the driver replays them
	// when the first one does not reproduce natively (an engine-only stub may be more liberal than the real function on one input)
	AltInputs []map[string]interface{} `json:"alt_inputs,omitempty"`
	Count     int                      `json:"count"`
	Harness   string                   `json:"harness"`
}

type HarnessResult struct {
	Name         string          `json:"harness"`
	Pkg          string          `json:"package"`
	Verdict      string          `json:"verdict"` // pass, violated, inconclusive
	Paths        int             `json:"paths"`
	PathsOK      int             `json:"paths_completed"`
	Infeasible   int             `json:"paths_infeasible"`
	Inconclusive []string        `json:"inconclusive,omitempty"`
	States       int             `json:"states"`
	Transitions  int             `json:"transitions"`
	Obligations  int             `json:"obligations"`
	Discharged   int             `json:"discharged"`
	Unknown      []string        `json:"unknown,omitempty"`
	Violations   []*ViolationOut `json:"violations,omitempty"`
	Reached      map[string]int  `json:"reached"`
	Asserts      map[string]int  `json:"asserts"`
	MissingReach []string        `json:"missing_reach,omitempty"`
	Funcs        []string        `json:"functions_encoded"`
	Queries      int             `json:"solver_queries"`
	SolverSec    float64         `json:"solver_seconds"`
	WallSec      float64         `json:"wall_seconds"`
	Samples      []*Sample       `json:"samples,omitempty"`
	Approx       []string        `json:"approximations,omitempty"`
	Leaked       []string        `json:"leaked_goroutines,omitempty"`
	Bounds       map[string]int  `json:"bounds"`
	Doc          string          `json:"doc,omitempty"`
	NoNative     bool            `json:"no_native,omitempty"`
}

func loadProgram(opts *Options) (*ssa.Program, []*packages.Package, error) {
	overlay := map[string][]byte{}
	// harness files
	filepath.Walk(opts.harnessDir, func(p string, info os.FileInfo, err error) error {
		if err != nil || info.IsDir() || !strings.HasSuffix(p, ".go") || strings.HasSuffix(p, "_test.go") {
			return nil
		}
		rel, _ := filepath.Rel(opts.harnessDir, p)
		data, _ := os.ReadFile(p)
		overlay[filepath.Join(opts.repo, filepath.Dir(rel), "zz_verif_"+filepath.Base(rel))] = data
		return nil
	})
	// sym package (engine flavour: bodies are never executed)
	entries, _ := os.ReadDir(opts.symDir)
	for _, e := range entries {
		if strings.HasSuffix(e.Name(), ".go") && !strings.HasSuffix(e.Name(), "_test.go") {
			data, _ := os.ReadFile(filepath.Join(opts.symDir, e.Name()))
			overlay[filepath.Join(opts.repo, "zz_verif", "sym", e.Name())] = data
		}
	}
	cfg := &packages.Config{
		Mode: packages.NeedName | packages.NeedFiles | packages.NeedCompiledGoFiles | packages.NeedImports | packages.NeedDeps |
			packages.NeedTypes | packages.NeedSyntax | packages.NeedTypesInfo | packages.NeedTypesSizes | packages.NeedModule,
		Dir:     opts.repo,
		Env:     append(os.Environ(), "GOFLAGS=-mod=mod", "GOPROXY=off", "GOSUMDB=off", "GOTOOLCHAIN=local", "CGO_ENABLED=0"),
		Overlay: overlay,
	}
	patterns := []string{"./...", "./zz_verif/sym"}
	seenDir := map[string]bool{}
	for f := range overlay {
		d := filepath.Dir(f)
		if seenDir[d] {
			continue
		}
		seenDir[d] = true
		if _, err := os.Stat(d); err != nil {
			rel, _ := filepath.Rel(opts.repo, d)
			if rel != "zz_verif/sym" {
				patterns = append(patterns, "./"+rel)
			}
		}
	}
	sort.Strings(patterns[2:])
	pkgs, err := packages.Load(cfg, patterns...)
	if err != nil {
		return nil, nil, err
	}
	nerr := 0
	packages.Visit(pkgs, nil, func(p *packages.Package) {
		for _, e := range p.Errors {
			if nerr < 20 {
				fmt.Fprintln(os.Stderr, "load error:", e)
			}
			nerr++
		}
	})
	if nerr > 0 {
		return nil, nil, fmt.Errorf("%d package load errors", nerr)
	}
	prog, _ := ssautil.AllPackages(pkgs, ssa.InstantiateGenerics|ssa.SanityCheckFunctions*0)
	prog.Build()
	return prog, pkgs, nil
}

var globalStubs = map[string]Value{}

// lookupQualified finds "import/path.Func".
func lookupQualified(prog *ssa.Program, q string) *ssa.Function {
	i := strings.LastIndex(q, ".")
	if i < 0 {
		return nil
	}
	p := prog.ImportedPackage(q[:i])
	if p == nil {
		return nil
	}
	return p.Func(q[i+1:])
}

func loadGlobalStubs(prog *ssa.Program, harnessDir string) {
	data, err := os.ReadFile(filepath.Join(harnessDir, "stubs.txt"))
	if err != nil {
		return
	}
	for _, line := range strings.Split(string(data), "\n") {
		f := strings.Fields(line)
		if len(f) != 2 || strings.HasPrefix(f[0], "#") {
			continue
		}
		fn := lookupQualified(prog, f[1])
		if fn == nil {
			fmt.Fprintln(os.Stderr, "stubs.txt: replacement not found:", f[1])
			os.Exit(3)
		}
		globalStubs[f[0]] = fn
	}
}

func findHarnesses(prog *ssa.Program, pkgs []*packages.Package, prop string, tier int) []*Harness {
	var out []*Harness
	prefix := "Verif" + prop + "_"
	for _, p := range pkgs {
		sp := prog.Package(p.Types)
		if sp == nil {
			continue
		}
		var names []string
		for name := range sp.Members {
			names = append(names, name)
		}
		sort.Strings(names)
		for _, name := range names {
			fn, ok := sp.Members[name].(*ssa.Function)
			if !ok || !strings.HasPrefix(name, prefix) {
				continue
			}
			h := &Harness{Name: name, Pkg: p.PkgPath, Fn: fn, Stubs: map[string]Value{}, Unwind: 64, MaxSteps: 3_000_000, MaxPaths: 20000, Preempt: 0, Timers: 0, Delays: -1}
			for k, v := range globalStubs {
				h.Stubs[k] = v
			}
			if fd, ok := fn.Syntax().(*ast.FuncDecl); ok && fd.Doc != nil {
				var doc []string
				for _, c := range fd.Doc.List {
					line := strings.TrimSpace(strings.TrimPrefix(c.Text, "//"))
					if !strings.HasPrefix(line, "verif:") {
						doc = append(doc, line)
						continue
					}
					f := strings.Fields(strings.TrimPrefix(line, "verif:"))
					if len(f) == 0 {
						continue
					}
					// a directive may be tier-specific: "verif:thorough unwind 200"
					if f[0] == "thorough" || f[0] == "quick" {
						want := 0
						if f[0] == "thorough" {
							want = 1
						}
						if want != tier {
							continue
						}
						f = f[1:]
						if len(f) == 0 {
							continue
						}
					}
					atoi := func(i int) int {
						if i < len(f) {
							n, _ := strconv.Atoi(f[i])
							return n
						}
						return 0
					}
					switch f[0] {
					case "unwind":
						h.Unwind = atoi(1)
					case "steps":
						h.MaxSteps = atoi(1)
					case "paths":
						h.MaxPaths = atoi(1)
					case "preempt":
						h.Preempt = atoi(1)
					case "timers":
						h.Timers = atoi(1)
					case "delays":
						h.Delays = atoi(1)
					case "preemptin":
						if len(f) > 1 {
							h.PreemptIn = f[1]
						}
					case "preemptcalls":
						// calls into packages with this import-path prefix are preemption points too
						if len(f) > 1 {
							h.PreemptCalls = f[1]
						}
					case "clock":
						h.VirtualClock = len(f) > 1 && f[1] == "virtual"
					case "native":
						if len(f) > 1 && f[1] == "off" {
							h.NoNative = true
						}
					case "solver":
						if len(f) > 1 {
							h.Solver = f[1]
						}
					case "tier":
						if len(f) > 1 && f[1] == "thorough" {
							h.Tier = 1
						}
					case "reach":
						h.Expect = append(h.Expect, f[1:]...)
					case "stub":
						if len(f) == 3 {
							stubFn := sp.Func(f[2])
							if stubFn == nil {
								stubFn = lookupQualified(prog, f[2])
							}
							if stubFn == nil {
								fmt.Fprintf(os.Stderr, "harness %s: stub function %s not found\n", name, f[2])
								os.Exit(3)
							}
							h.Stubs[f[1]] = stubFn
						}
					}
				}
				h.Doc = strings.Join(doc, " ")
			}
			if h.Tier > tier {
				continue
			}
			out = append(out, h)
		}
	}
	return out
}

// ---------- exploration ----------

type explorer struct {
	mu      sync.Mutex
	cond    *sync.Cond
	queue   []*WorkItem
	active  int
	stopped bool
	res     *HarnessResult
	funcs   map[string]bool
	vio     map[string]*ViolationOut
	inconc  map[string]int
	unknown map[string]int
	approx  map[string]bool
	leaked  map[string]bool
	paths   int
	h       *Harness
	opts    *Options
	start   time.Time
}

func (e *explorer) take() *WorkItem {
	e.mu.Lock()
	defer e.mu.Unlock()
	for {
		if e.stopped {
			return nil
		}
		if n := len(e.queue); n > 0 {
			it := e.queue[n-1]
			e.queue = e.queue[:n-1]
			e.active++
			return it
		}
		if e.active == 0 {
			e.stopped = true
			e.cond.Broadcast()
			return nil
		}
		e.cond.Wait()
	}
}

func (e *explorer) done(pr *PathResult, forks []*WorkItem, w *Worker, sample *Sample, approx, leaked []string) {
	e.mu.Lock()
	defer e.mu.Unlock()
	e.active--
	e.paths++
	r := e.res
	r.Paths++
	r.States += pr.Decisions + 1
	r.Transitions += pr.Steps
	r.Obligations += pr.Obligations
	r.Discharged += pr.Discharged
	for f := range pr.Funcs {
		e.funcs[f] = true
	}
	for _, a := range approx {
		e.approx[a] = true
	}
	for _, a := range leaked {
		e.leaked[a] = true
	}
	switch pr.Status {
	case "ok", "panic", "violation-end":
		r.PathsOK++
	case "infeasible":
		r.Infeasible++
	default:
		e.inconc[pr.Status+": "+pr.Why]++
	}
	for _, u := range pr.Unknown {
		e.unknown[u]++
	}
	if pr.Status == "ok" || pr.Status == "panic" || pr.Status == "violation-end" {
		for _, l := range pr.Reached {
			r.Reached[l]++
		}
	}
	for l, n := range pr.Asserts {
		r.Asserts[l] += n
	}
	for _, v := range pr.Violations {
		key := v.Kind + "|" + v.Label + "|" + v.Site
		if ex, ok := e.vio[key]; ok {
			ex.Count++
			if len(ex.AltInputs) < 5 {
				ex.AltInputs = append(ex.AltInputs, v.Inputs)
			}
			continue
		}
		vo := &ViolationOut{Kind: v.Kind, Label: v.Label, Site: v.Site, Trace: v.Trace, Count: 1, Harness: e.h.Name}
		vo.Inputs = v.Inputs
		e.vio[key] = vo
	}
	if sample != nil && len(r.Samples) < 40 {
		r.Samples = append(r.Samples, sample)
	}
	e.queue = append(e.queue, forks...)
	if e.paths >= e.h.MaxPaths && (len(e.queue) > 0 || e.active > 0) {
		e.inconc[fmt.Sprintf("path budget %d exhausted", e.h.MaxPaths)]++
		e.stopped = true
	}
	if e.opts.wallBudget > 0 && time.Since(e.start) > e.opts.wallBudget && (len(e.queue) > 0 || e.active > 0) {
		e.inconc["wall budget exhausted"]++
		e.stopped = true
	}
	e.cond.Broadcast()
}

func modelInputs(inputs []InputRec, m *Model) map[string]interface{} {
	out := map[string]interface{}{}
	if m == nil {
		return out
	}
	ev := NewEvaluator(m)
	for _, in := range inputs {
		switch in.Kind {
		case "byte":
			out[in.Name] = map[string]interface{}{"k": "int", "v": int64(ev.Eval(in.Term))}
		case "bool":
			out[in.Name] = map[string]interface{}{"k": "bool", "v": ev.Eval(in.Term) != 0}
		case "int", "time":
			out[in.Name] = map[string]interface{}{"k": "int", "v": int64(ev.Eval(in.Term))}
		case "bytes":
			n := int64(ev.Eval(in.Term))
			if n < 0 || n > int64(len(in.Cells)) {
				n = int64(len(in.Cells))
			}
			b := make([]byte, n)
			for i := range b {
				b[i] = byte(ev.Eval(in.Cells[i]))
			}
			out[in.Name] = map[string]interface{}{"k": "bytes", "v": hex.EncodeToString(b), "s": printable(b)}
		case "bigbytes":
			n := int64(ev.Eval(in.Term))
			sparse := map[string]int{}
			for idx, v := range m.UFs[in.UF] {
				if int64(idx) < n && int64(idx) >= 0 {
					sparse[strconv.FormatUint(idx, 10)] = int(v)
				}
			}
			out[in.Name] = map[string]interface{}{"k": "bigbytes", "n": n, "at": sparse}
		}
	}
	return out
}

func printable(b []byte) string {
	var sb strings.Builder
	for _, ch := range b {
		if ch >= 32 && ch < 127 && ch != '\\' {
			sb.WriteByte(ch)
		} else {
			fmt.Fprintf(&sb, "\\x%02x", ch)
		}
	}
	return sb.String()
}

func (w *Worker) runPath(h *Harness, item *WorkItem) (pr *PathResult, forks []*WorkItem, sample *Sample, approx, leaked []string) {
	w.ctx.ResetPath()
	ex := &Exec{
		prog: w.prog, w: w, c: w.ctx, solver: w.solver, h: h, fnInfos: w.fnInfos,
		globals: map[*ssa.Global]*Value{}, initDone: map[*ssa.Package]bool{},
		pcSet: map[int]bool{}, prefix: item.Prefix, symNames: map[string]int{},
		unwind: h.Unwind, maxSteps: h.MaxSteps,
		pools: map[*Value][]Value{}, locks: map[*Value]*lockState{}, strObjs: map[string]*ByteObj{},
		timerOf: map[*Value]*Timer{}, vecs: map[*Value]*vecState{}, asserts: map[string]int{},
		tainted: item.Tainted,
	}
	w.curItem = item
	pr = &PathResult{Funcs: map[string]bool{}, Status: "ok"}
	ex.res = pr
	ex.initSched()
	if len(item.Prefix) == 0 {
		ex.setModel(&Model{Vars: map[string]uint64{}, UFs: map[string]map[uint64]uint64{}})
	}
	func() {
		defer func() {
			r := recover()
			leaked = ex.killGoroutines()
			if r == nil {
				return
			}
			switch p := r.(type) {
			case pathEnd:
				if strings.HasPrefix(p.why, "violation") || strings.HasPrefix(p.why, "uncaught panic") || p.why == "deadlock" {
					pr.Status = "violation-end"
				} else {
					pr.Status = "infeasible"
				}
				pr.Why = p.why
			case unsupported:
				pr.Status = "unsupported"
				pr.Why = p.why + " @ " + ex.site()
			case unwindExceeded:
				pr.Status = "unwind"
				pr.Why = p.why
			case budgetExceeded:
				pr.Status = "budget"
				pr.Why = p.why + " @ " + ex.site()
			case *goPanic:
				// uncaught panic reaching the harness root
				func() {
					defer func() {
						if r2 := recover(); r2 != nil {
							if _, ok := r2.(pathEnd); !ok {
								panic(r2)
							}
						}
					}()
					ex.uncaughtPanic(p)
				}()
				pr.Status = "panic"
				pr.Why = p.msg
			default:
				panic(r)
			}
		}()
		ex.callFn(nil, h.Fn, nil, nil)
	}()
	pr.Steps = ex.steps
	pr.Asserts = ex.asserts
	if ex.tainted && pr.Status == "ok" {
		pr.Unknown = append(pr.Unknown, "path relies on an undecided (unknown) solver answer")
	}
	for _, v := range pr.Violations {
		v.Inputs = modelInputs(ex.inputs, v.Model)
		v.Model = nil
	}
	if (pr.Status == "ok" || pr.Status == "panic") && ex.model != nil {
		sample = &Sample{Inputs: modelInputs(ex.inputs, ex.model), Outcome: pr.Status, Observed: map[string]string{}}
		for _, ob := range ex.observed {
			sample.Observed[ob.Label] = ex.renderObserved(ob.Val)
		}
		if len(ex.log) < 200 {
			sample.Log = ex.log
		}
	}
	return pr, ex.forks, sample, ex.approx, leaked
}

// renderObserved evaluates an observed value under the path's final model.
func (ex *Exec) renderObserved(v Value) string {
	if ex.ev == nil {
		return "?"
	}
	switch x := v.(type) {
	case Iface:
		return ex.renderObserved(x.V)
	case *T:
		val := ex.ev.Eval(x)
		switch x.s.K {
		case KBool:
			if val != 0 {
				return "true"
			}
			return "false"
		case KBV:
			return strconv.FormatInt(sext(val, x.s.W), 10)
		default:
			return fmt.Sprintf("f%016x", val)
		}
	case View:
		n := int64(ex.ev.Eval(x.Len))
		if n < 0 || n > 1<<20 {
			return "?"
		}
		b := make([]byte, n)
		for i := range b {
			b[i] = byte(ex.ev.Eval(ex.viewRead(x, ex.intConst(int64(i)))))
		}
		return "x" + hex.EncodeToString(b)
	case SliceV:
		parts := make([]string, len(x.A))
		for i, e := range x.A {
			parts[i] = ex.renderObserved(e)
		}
		return "[" + strings.Join(parts, ",") + "]"
	case nil:
		return "nil"
	}
	return fmt.Sprintf("<%T>", v)
}

func backendFor(h *Harness, opts *Options) string {
	if h.Solver != "" {
		return h.Solver
	}
	return opts.backend
}

func explore(prog *ssa.Program, h *Harness, opts *Options) *HarnessResult {
	res := &HarnessResult{Name: h.Name, Pkg: h.Pkg, Reached: map[string]int{}, Asserts: map[string]int{}, Doc: h.Doc, NoNative: h.NoNative,
		Bounds: map[string]int{"unwind": h.Unwind, "max_steps_per_path": h.MaxSteps, "max_paths": h.MaxPaths, "preemptions": h.Preempt, "timer_firings": h.Timers, "scheduling_delays": h.Delays}}
	e := &explorer{res: res, funcs: map[string]bool{}, vio: map[string]*ViolationOut{}, inconc: map[string]int{}, unknown: map[string]int{},
		approx: map[string]bool{}, leaked: map[string]bool{}, h: h, opts: opts, start: time.Now()}
	e.cond = sync.NewCond(&e.mu)
	e.queue = []*WorkItem{{}}
	var wg sync.WaitGroup
	var qmu sync.Mutex
	for i := 0; i < opts.workers; i++ {
		wg.Add(1)
		go func(id int) {
			defer wg.Done()
			var ctx *Ctx
			var w *Worker
			defer func() {
				if w == nil {
					return
				}
				qmu.Lock()
				res.Queries += w.solver.Queries
				res.SolverSec += w.solver.Seconds
				qmu.Unlock()
				w.solver.Close()
			}()
			for {
				it := e.take()
				if it == nil {
					return
				}
				if w == nil {
					ctx = NewCtx()
					w = &Worker{id: id, opts: opts, prog: prog, ctx: ctx, solver: NewSolver(ctx, backendFor(h, opts), opts.timeoutMs), fnInfos: map[*ssa.Function]*fnInfo{}}
				}
				pathSem <- struct{}{}
				pr, forks, sample, approx, leaked := w.runPath(h, it)
				<-pathSem
				e.done(pr, forks, w, sample, approx, leaked)
				// keep the term table from growing without bound
				if len(ctx.tab) > 3_000_000 {
					qmu.Lock()
					res.Queries += w.solver.Queries
					res.SolverSec += w.solver.Seconds
					qmu.Unlock()
					w.solver.Close()
					ctx = NewCtx()
					w.ctx = ctx
					w.solver = NewSolver(ctx, backendFor(h, opts), opts.timeoutMs)
				}
			}
		}(i)
	}
	wg.Wait()
	for f := range e.funcs {
		res.Funcs = append(res.Funcs, f)
	}
	sort.Strings(res.Funcs)
	for k, n := range e.inconc {
		res.Inconclusive = append(res.Inconclusive, fmt.Sprintf("%s (x%d)", k, n))
	}
	sort.Strings(res.Inconclusive)
	for k, n := range e.unknown {
		res.Unknown = append(res.Unknown, fmt.Sprintf("%s (x%d)", k, n))
	}
	sort.Strings(res.Unknown)
	for k := range e.approx {
		res.Approx = append(res.Approx, k)
	}
	sort.Strings(res.Approx)
	for k := range e.leaked {
		res.Leaked = append(res.Leaked, k)
	}
	sort.Strings(res.Leaked)
	var keys []string
	for k := range e.vio {
		keys = append(keys, k)
	}
	sort.Strings(keys)
	for _, k := range keys {
		res.Violations = append(res.Violations, e.vio[k])
	}
	for _, l := range h.Expect {
		if res.Reached[l] == 0 {
			res.MissingReach = append(res.MissingReach, l)
		}
	}
	switch {
	case len(res.Violations) > 0:
		res.Verdict = "violated"
	case len(res.Inconclusive) > 0 || len(res.Unknown) > 0 || len(res.MissingReach) > 0 || res.PathsOK == 0:
		res.Verdict = "inconclusive"
	default:
		res.Verdict = "pass"
	}
	res.WallSec = time.Since(e.start).Seconds()
	return res
}
